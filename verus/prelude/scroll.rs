// ---------------------------------------------------------------------------
// prelude/scroll.rs — stand-ins for the `scroll` traits used by mem_writer.rs.
// TRUSTED (assumption ledger item 2): same names, method signatures and generic
// shape as scroll 0.12's `ctx::{SizeWith, TryIntoCtx}` and `Endian`.
//   * `spec_size()`  : the serialized size of the type (pinned per concrete type
//                      by the Kani harnesses in kani/proofs/scroll_sizes.rs)
//   * `ser(v)`       : the little-endian byte image of `v`, |ser(v)| == spec_size()
//   * try_into_ctx   : on Ok the destination equals ser(v) and the count is its length;
//                      on Err nothing is known about the destination contents.
// ---------------------------------------------------------------------------
pub mod scroll {
    use vstd::prelude::*;
    verus! {
    pub enum Endian { Little, Big }
    pub struct Error { pub code: u8 }
    pub mod ctx {
        use vstd::prelude::*;
        pub trait SizeWith<Ctx> {
            spec fn spec_size() -> nat;
            fn size_with(ctx: &Ctx) -> (r: usize)
                ensures r == Self::spec_size();
        }
        pub trait TryIntoCtx<Ctx>: Sized {
            type Error;
            spec fn ser(self) -> Seq<u8>;
            fn try_into_ctx(self, dst: &mut [u8], ctx: Ctx) -> (r: Result<usize, Self::Error>)
                ensures
                    final(dst)@.len() == old(dst)@.len(),
                    r is Ok ==> final(dst)@ == self.ser() && r->Ok_0 == self.ser().len();
        }
    }
    }
}
verus! {
// scroll's impls for the primitive element types the writers use (TRUSTED stand-ins,
// cross-checked on the real scroll crate by kani/proofs/scroll_sizes.rs).
pub open spec fn le16(v: u16) -> Seq<u8> { seq![(v & 0xff) as u8, ((v >> 8) & 0xff) as u8] }
pub open spec fn le32(v: u32) -> Seq<u8> {
    seq![(v & 0xff) as u8, ((v >> 8) & 0xff) as u8, ((v >> 16) & 0xff) as u8, ((v >> 24) & 0xff) as u8]
}
impl scroll::ctx::SizeWith<scroll::Endian> for u8 {
    open spec fn spec_size() -> nat { 1 }
    #[verifier::external_body]
    fn size_with(ctx: &scroll::Endian) -> (r: usize) { 1 }
}
impl scroll::ctx::TryIntoCtx<scroll::Endian> for u8 {
    type Error = scroll::Error;
    open spec fn ser(self) -> Seq<u8> { seq![self] }
    #[verifier::external_body]
    fn try_into_ctx(self, dst: &mut [u8], ctx: scroll::Endian) -> (r: Result<usize, scroll::Error>) { unimplemented!() }
}
impl scroll::ctx::SizeWith<scroll::Endian> for u16 {
    open spec fn spec_size() -> nat { 2 }
    #[verifier::external_body]
    fn size_with(ctx: &scroll::Endian) -> (r: usize) { 2 }
}
impl scroll::ctx::TryIntoCtx<scroll::Endian> for u16 {
    type Error = scroll::Error;
    open spec fn ser(self) -> Seq<u8> { le16(self) }
    #[verifier::external_body]
    fn try_into_ctx(self, dst: &mut [u8], ctx: scroll::Endian) -> (r: Result<usize, scroll::Error>) { unimplemented!() }
}
impl scroll::ctx::SizeWith<scroll::Endian> for u32 {
    open spec fn spec_size() -> nat { 4 }
    #[verifier::external_body]
    fn size_with(ctx: &scroll::Endian) -> (r: usize) { 4 }
}
impl scroll::ctx::TryIntoCtx<scroll::Endian> for u32 {
    type Error = scroll::Error;
    open spec fn ser(self) -> Seq<u8> { le32(self) }
    #[verifier::external_body]
    fn try_into_ctx(self, dst: &mut [u8], ctx: scroll::Endian) -> (r: Result<usize, scroll::Error>) { unimplemented!() }
}
}

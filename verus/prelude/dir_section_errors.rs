verus! {
pub enum FileWriterError {
    IOError(std::io::Error),
    MemoryWriterError(MemoryWriterError),
}
impl vstd::std_specs::convert::FromSpecImpl<std::io::Error> for FileWriterError {
    open spec fn obeys_from_spec() -> bool { true }
    open spec fn from_spec(e: std::io::Error) -> FileWriterError { FileWriterError::IOError(e) }
}
impl core::convert::From<std::io::Error> for FileWriterError {
    fn from(e: std::io::Error) -> (r: FileWriterError) { FileWriterError::IOError(e) }
}
impl vstd::std_specs::convert::FromSpecImpl<MemoryWriterError> for FileWriterError {
    open spec fn obeys_from_spec() -> bool { true }
    open spec fn from_spec(e: MemoryWriterError) -> FileWriterError { FileWriterError::MemoryWriterError(e) }
}
impl core::convert::From<MemoryWriterError> for FileWriterError {
    fn from(e: MemoryWriterError) -> (r: FileWriterError) { FileWriterError::MemoryWriterError(e) }
}
}

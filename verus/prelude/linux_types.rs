// ---------------------------------------------------------------------------
// prelude/linux_types.rs — stand-ins (TRUSTED, ledger L2) for the types the Linux writer's
// structs mention but whose definitions live in dependency crates or use derive macros.
// The *structs under proof* (MappingInfo, PtraceDumper, MinidumpWriter, Thread, AppMemory,
// CrashingThreadContext, MaxStackLen, …) are NOT here: they are extracted from /repo each run.
// ---------------------------------------------------------------------------
verus! {
pub type Pid = i32;

/// std::ffi::OsString (contents irrelevant to the functions under proof)
pub struct OsString { pub bytes: Vec<u8> }

/// procfs_core::process::MMPermissions (bitflags): NONE=0 READ=1 WRITE=2 EXECUTE=4 SHARED=8 PRIVATE=16
#[derive(Clone, Copy)]
pub struct MMPermissions { pub bits: u8 }
impl MMPermissions {
    pub open spec fn r(&self) -> bool { self.bits & 1 == 1 }
    pub open spec fn w(&self) -> bool { self.bits & 2 == 2 }
    pub open spec fn x(&self) -> bool { self.bits & 4 == 4 }
    // the bitflags constants and set operations the functions under proof use
    // (values and meaning pinned on the real type by the Kani harness vk_mmpermission_bits)
    pub const READ: MMPermissions = MMPermissions { bits: 1 };
    pub const WRITE: MMPermissions = MMPermissions { bits: 2 };
    pub const EXECUTE: MMPermissions = MMPermissions { bits: 4 };
    #[verifier::external_body]
    pub fn contains(&self, other: MMPermissions) -> (r: bool)
        ensures r == (self.bits & other.bits == other.bits)
    { unimplemented!() }
    #[verifier::external_body]
    pub fn intersects(&self, other: MMPermissions) -> (r: bool)
        ensures r == (self.bits & other.bits != 0)
    { unimplemented!() }
}
impl vstd::std_specs::ops::BitOrSpecImpl<MMPermissions> for MMPermissions {
    open spec fn obeys_bitor_spec() -> bool { true }
    open spec fn bitor_req(self, rhs: MMPermissions) -> bool { true }
    open spec fn bitor_spec(self, rhs: MMPermissions) -> MMPermissions { MMPermissions { bits: self.bits | rhs.bits } }
}
impl core::ops::BitOr for MMPermissions {
    type Output = MMPermissions;
    fn bitor(self, rhs: MMPermissions) -> MMPermissions { MMPermissions { bits: self.bits | rhs.bits } }
}

/// target memory as seen through the reader contract (C17): uninterpreted
pub uninterp spec fn mem(addr: int) -> u8;
pub uninterp spec fn readable(addr: int) -> bool;
/// result of a remote read of `n` bytes at `src`: a non-empty prefix of the true bytes,
/// complete when the whole range is readable (short reads only come from process_vm_readv)
pub open spec fn copy_ok(v: Seq<u8>, src: int, n: int) -> bool {
    &&& 0 < v.len() <= n
    &&& forall|i: int| 0 <= i < v.len() ==> #[trigger] v[i] == mem(src + i)
    &&& (forall|i: int| 0 <= i < n ==> #[trigger] readable(src + i)) ==> v.len() == n
}

pub struct CopyFromProcessError { pub child: Pid, pub src: usize, pub offset: usize, pub length: usize }
pub enum DumperError {
    CopyFromProcessError(CopyFromProcessError),
    NoStackPointerMapping,
    PtraceDetachError(Pid, i32),
    TryFromSliceError,
    Other,
}
pub enum ThreadInfoError { IndexOutOfBounds(usize, usize), Other }
pub enum SectionThreadListError {
    MemoryWriterError(MemoryWriterError),
    TryFromIntError(TryFromIntError),
    CopyFromProcessError(DumperError),
    ThreadInfoError(ThreadInfoError),
}
pub enum SectionMemListError { MemoryWriterError(MemoryWriterError) }
pub enum SectionAppMemoryError { CopyFromProcessError(DumperError), MemoryWriterError(MemoryWriterError) }
pub enum SectionExceptionStreamError { MemoryWriterError(MemoryWriterError) }

// `?` conversions (thiserror's #[from] impls)
macro_rules! from_impl {
    ($src:ty, $dst:ty, $var:path) => {
        verus! {
        impl vstd::std_specs::convert::FromSpecImpl<$src> for $dst {
            open spec fn obeys_from_spec() -> bool { true }
            open spec fn from_spec(e: $src) -> $dst { $var(e) }
        }
        impl core::convert::From<$src> for $dst {
            fn from(e: $src) -> (r: $dst) { $var(e) }
        }
        }
    };
}
}
from_impl!(MemoryWriterError, SectionThreadListError, SectionThreadListError::MemoryWriterError);
from_impl!(TryFromIntError, SectionThreadListError, SectionThreadListError::TryFromIntError);
from_impl!(DumperError, SectionThreadListError, SectionThreadListError::CopyFromProcessError);
from_impl!(ThreadInfoError, SectionThreadListError, SectionThreadListError::ThreadInfoError);
from_impl!(MemoryWriterError, SectionMemListError, SectionMemListError::MemoryWriterError);
from_impl!(DumperError, SectionAppMemoryError, SectionAppMemoryError::CopyFromProcessError);
from_impl!(MemoryWriterError, SectionAppMemoryError, SectionAppMemoryError::MemoryWriterError);
from_impl!(MemoryWriterError, SectionExceptionStreamError, SectionExceptionStreamError::MemoryWriterError);
verus! {
pub mod errors {
    pub use super::{SectionThreadListError, SectionMemListError, SectionAppMemoryError, SectionExceptionStreamError, DumperError};
}

// ---- opaque configuration types held by MinidumpWriter / PtraceDumper ----
pub struct AuxvDumpInfo { pub x: u8 }
pub struct DirectAuxvDumpInfo { pub x: u8 }
#[derive(Clone, Copy)]
pub struct Duration { pub x: u8 }

/// crate::linux::crash_context::CrashContext: wraps crash_context::CrashContext (libc ucontext_t,
/// signalfd_siginfo). Only the three siginfo fields and the two accessors are visible to the
/// functions under proof; the accessors are external (their register extraction is a Kani obligation).
pub struct SigInfo { pub ssi_signo: u32, pub ssi_code: i32, pub ssi_addr: u64 }
pub struct CrashContextInner { pub siginfo: SigInfo, pub gregs_rip: u64, pub gregs_rsp: u64 }
pub struct CrashContext { pub inner: CrashContextInner }
impl CrashContext {
    pub open spec fn ip(&self) -> usize { self.inner.gregs_rip as usize }
    pub open spec fn sp(&self) -> usize { self.inner.gregs_rsp as usize }
    #[verifier::external_body]
    pub fn get_instruction_pointer(&self) -> (r: usize) ensures r == self.ip() { unimplemented!() }
    #[verifier::external_body]
    pub fn get_stack_pointer(&self) -> (r: usize) ensures r == self.sp() { unimplemented!() }
}
}

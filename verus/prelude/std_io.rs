// ---------------------------------------------------------------------------
// prelude/std_io.rs — TRUSTED model of `std::io::{Write, Seek, SeekFrom, Error}` for a
// seekable byte sink (assumption ledger item 4). A local `mod std` shadows the extern
// prelude so that the verbatim paths `std::io::SeekFrom::Start(..)` resolve to this model.
//   contents : the bytes currently stored in the destination
//   pos      : the cursor
//   history  : the contents after every *completed* write call (ghost; for C10)
//   write_all(buf) Ok  : buf is stored at pos (overwriting / extending, gap zero-filled
//                        as File/Cursor do), cursor advances by |buf|
//                 Err : some prefix buf[..k] has been stored the same way, nothing else changed
//   seek(Start(p))     : cursor = p (contents untouched);   stream_position() : returns cursor
// Checked against the real std::io::Cursor<Vec<u8>> by kani/proofs/dir_section.rs.
// ---------------------------------------------------------------------------
pub mod std {
    pub use ::std::*;
    pub mod io {
        use vstd::prelude::*;
        verus! {
        pub struct Error { pub code: i32 }
        pub enum SeekFrom { Start(u64), End(i64), Current(i64) }

        /// bytes of `c` with `buf` stored at `pos`
        pub open spec fn stored(c: Seq<u8>, pos: nat, buf: Seq<u8>) -> Seq<u8> {
            Seq::new(
                if c.len() >= pos + buf.len() { c.len() } else { pos + buf.len() },
                |i: int| if pos <= i < pos + buf.len() { buf[i - pos] } else if i < c.len() { c[i] } else { 0u8 })
        }

        pub trait DestSpec {
            spec fn contents(&self) -> Seq<u8>;
            spec fn pos(&self) -> nat;
            spec fn history(&self) -> Seq<Seq<u8>>;
        }

        pub trait Write: DestSpec {
            fn write_all(&mut self, buf: &[u8]) -> (r: Result<(), Error>)
                ensures
                    r is Ok ==> final(self).contents() == stored(old(self).contents(), old(self).pos(), buf@)
                             && final(self).pos() == old(self).pos() + buf@.len(),
                    r is Err ==> exists|k: int| #![auto] 0 <= k <= buf@.len()
                             && final(self).contents() == stored(old(self).contents(), old(self).pos(), buf@.subrange(0, k)),
                    final(self).history() == old(self).history().push(final(self).contents());
        }

        pub trait Seek: DestSpec {
            fn seek(&mut self, p: SeekFrom) -> (r: Result<u64, Error>)
                ensures
                    final(self).contents() == old(self).contents(),
                    final(self).history() == old(self).history(),
                    r is Ok && p is Start ==> final(self).pos() == p->Start_0 && r->Ok_0 == p->Start_0,
                    r is Err ==> final(self).pos() == old(self).pos();
            fn stream_position(&mut self) -> (r: Result<u64, Error>)
                ensures
                    final(self).contents() == old(self).contents(),
                    final(self).history() == old(self).history(),
                    final(self).pos() == old(self).pos(),
                    r is Ok ==> r->Ok_0 == old(self).pos();
        }
        }
    }
}

// stand-in for mem_writer.rs's error enum (derive macros of thiserror/serde are not
// available to Verus); the From impls are what `?` uses.
verus! {
pub struct IoError { pub code: i32 }
pub use core::num::TryFromIntError;
pub enum MemoryWriterError {
    IOError(IoError),
    TryFromIntError(TryFromIntError),
    Scroll(scroll::Error),
}
impl vstd::std_specs::convert::FromSpecImpl<scroll::Error> for MemoryWriterError {
    open spec fn obeys_from_spec() -> bool { true }
    open spec fn from_spec(e: scroll::Error) -> MemoryWriterError { MemoryWriterError::Scroll(e) }
}
impl vstd::std_specs::convert::FromSpecImpl<TryFromIntError> for MemoryWriterError {
    open spec fn obeys_from_spec() -> bool { true }
    open spec fn from_spec(e: TryFromIntError) -> MemoryWriterError { MemoryWriterError::TryFromIntError(e) }
}
impl vstd::std_specs::convert::FromSpecImpl<IoError> for MemoryWriterError {
    open spec fn obeys_from_spec() -> bool { true }
    open spec fn from_spec(e: IoError) -> MemoryWriterError { MemoryWriterError::IOError(e) }
}
impl core::convert::From<scroll::Error> for MemoryWriterError {
    fn from(e: scroll::Error) -> (r: MemoryWriterError) { MemoryWriterError::Scroll(e) }
}
impl core::convert::From<TryFromIntError> for MemoryWriterError {
    fn from(e: TryFromIntError) -> (r: MemoryWriterError) { MemoryWriterError::TryFromIntError(e) }
}
impl core::convert::From<IoError> for MemoryWriterError {
    fn from(e: IoError) -> (r: MemoryWriterError) { MemoryWriterError::IOError(e) }
}
}

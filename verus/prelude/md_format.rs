// ---------------------------------------------------------------------------
// prelude/md_format.rs — stand-ins for minidump_common::format PODs (TRUSTED:
// same field names and types as minidump-common 0.25; the Kani harnesses use the
// real types).
// ---------------------------------------------------------------------------
verus! {
pub type MDRVA = u32;
#[derive(Clone, Copy)]
pub struct MDLocationDescriptor { pub data_size: u32, pub rva: MDRVA }
#[derive(Clone, Copy)]
pub struct MDRawDirectory { pub stream_type: u32, pub location: MDLocationDescriptor }
#[derive(Clone, Copy)]
pub struct MDMemoryDescriptor { pub start_of_memory_range: u64, pub memory: MDLocationDescriptor }
}
verus! {
// scroll impls of the PODs (sizes pinned by kani/proofs/mem_writer.rs::vk_size_*; `ser` is the
// little-endian field concatenation, uninterpreted here except for its length)
pub uninterp spec fn ser_dirent(d: MDRawDirectory) -> Seq<u8>;
pub uninterp spec fn ser_memdesc(d: MDMemoryDescriptor) -> Seq<u8>;
impl scroll::ctx::SizeWith<scroll::Endian> for MDRawDirectory {
    open spec fn spec_size() -> nat { 12 }
    #[verifier::external_body]
    fn size_with(ctx: &scroll::Endian) -> (r: usize) { 12 }
}
impl scroll::ctx::TryIntoCtx<scroll::Endian> for MDRawDirectory {
    type Error = scroll::Error;
    open spec fn ser(self) -> Seq<u8> { ser_dirent(self) }
    #[verifier::external_body]
    fn try_into_ctx(self, dst: &mut [u8], ctx: scroll::Endian) -> (r: Result<usize, scroll::Error>) { unimplemented!() }
}
impl scroll::ctx::SizeWith<scroll::Endian> for MDMemoryDescriptor {
    open spec fn spec_size() -> nat { 16 }
    #[verifier::external_body]
    fn size_with(ctx: &scroll::Endian) -> (r: usize) { 16 }
}
impl scroll::ctx::TryIntoCtx<scroll::Endian> for MDMemoryDescriptor {
    type Error = scroll::Error;
    open spec fn ser(self) -> Seq<u8> { ser_memdesc(self) }
    #[verifier::external_body]
    fn try_into_ctx(self, dst: &mut [u8], ctx: scroll::Endian) -> (r: Result<usize, scroll::Error>) { unimplemented!() }
}
}
verus! {
#[derive(Clone, Copy)]
pub struct MDRawThread {
    pub thread_id: u32, pub suspend_count: u32, pub priority_class: u32, pub priority: u32, pub teb: u64,
    pub stack: MDMemoryDescriptor, pub thread_context: MDLocationDescriptor,
}
impl Default for MDLocationDescriptor {
    fn default() -> (r: Self) ensures r.data_size == 0 && r.rva == 0 { MDLocationDescriptor { data_size: 0, rva: 0 } }
}
impl Default for MDMemoryDescriptor {
    fn default() -> (r: Self) ensures r.start_of_memory_range == 0 && r.memory.data_size == 0 && r.memory.rva == 0 {
        MDMemoryDescriptor { start_of_memory_range: 0, memory: MDLocationDescriptor { data_size: 0, rva: 0 } }
    }
}
}

verus! {
#[derive(Clone, Copy)]
pub struct MDException {
    pub exception_code: u32, pub exception_flags: u32, pub exception_record: u64, pub exception_address: u64,
    pub number_parameters: u32, pub __align: u32, pub exception_information: [u64; 15],
}
impl Default for MDException {
    fn default() -> (r: Self)
        ensures r.exception_code == 0 && r.exception_flags == 0 && r.exception_record == 0 && r.exception_address == 0
            && r.number_parameters == 0
    { MDException { exception_code: 0, exception_flags: 0, exception_record: 0, exception_address: 0, number_parameters: 0, __align: 0, exception_information: [0u64; 15] } }
}
#[derive(Clone, Copy)]
pub struct MDRawExceptionStream { pub thread_id: u32, pub __align: u32, pub exception_record: MDException, pub thread_context: MDLocationDescriptor }
pub uninterp spec fn ser_exception(e: MDRawExceptionStream) -> Seq<u8>;
impl scroll::ctx::SizeWith<scroll::Endian> for MDRawExceptionStream {
    open spec fn spec_size() -> nat { 168 }
    #[verifier::external_body]
    fn size_with(ctx: &scroll::Endian) -> (r: usize) { 168 }
}
impl scroll::ctx::TryIntoCtx<scroll::Endian> for MDRawExceptionStream {
    type Error = scroll::Error;
    open spec fn ser(self) -> Seq<u8> { ser_exception(self) }
    #[verifier::external_body]
    fn try_into_ctx(self, dst: &mut [u8], ctx: scroll::Endian) -> (r: Result<usize, scroll::Error>) { unimplemented!() }
}
}

// ---------------------------------------------------------------------------
// prelude/md_format.rs — stand-ins for minidump_common::format PODs (TRUSTED:
// same field names and types as minidump-common 0.25; the Kani harnesses use the
// real types).
// ---------------------------------------------------------------------------
verus! {
pub type MDRVA = u32;
#[derive(Clone, Copy)]
pub struct MDLocationDescriptor { pub data_size: u32, pub rva: MDRVA }
#[derive(Clone, Copy)]
pub struct MDRawDirectory { pub stream_type: u32, pub location: MDLocationDescriptor }
#[derive(Clone, Copy)]
pub struct MDMemoryDescriptor { pub start_of_memory_range: u64, pub memory: MDLocationDescriptor }
}

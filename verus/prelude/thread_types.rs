// ---------------------------------------------------------------------------
// prelude/thread_types.rs — stand-ins (TRUSTED, ledger L2) for what thread_list_stream::write handles but does not
// define: the CPU context record (minidump-common's CONTEXT_AMD64, 1232 bytes: size pinned by Kani), the per-thread
// register snapshot `ThreadInfo` (= ThreadInfoX86) and the two register maps, which are Kani obligations
// (vk_thread_fill_cpu_context_*, vk_crash_fill_cpu_context_*): here they are uninterpreted functions of their input.
// ---------------------------------------------------------------------------
verus! {
#[verifier::external_body]
#[derive(Clone, Copy)]
pub struct RawContextCPU { _p: [u8; 0] }
pub uninterp spec fn ser_cpu(c: RawContextCPU) -> Seq<u8>;
pub uninterp spec fn cpu_default() -> RawContextCPU;
impl Default for RawContextCPU {
    #[verifier::external_body]
    fn default() -> (r: Self) ensures r == cpu_default() { unimplemented!() }
}
impl scroll::ctx::SizeWith<scroll::Endian> for RawContextCPU {
    open spec fn spec_size() -> nat { 1232 }
    #[verifier::external_body]
    fn size_with(ctx: &scroll::Endian) -> (r: usize) { 1232 }
}
impl scroll::ctx::TryIntoCtx<scroll::Endian> for RawContextCPU {
    type Error = scroll::Error;
    open spec fn ser(self) -> Seq<u8> { ser_cpu(self) }
    #[verifier::external_body]
    fn try_into_ctx(self, dst: &mut [u8], ctx: scroll::Endian) -> (r: Result<usize, scroll::Error>) { unimplemented!() }
}
pub uninterp spec fn ser_thread(t: MDRawThread) -> Seq<u8>;
impl scroll::ctx::SizeWith<scroll::Endian> for MDRawThread {
    open spec fn spec_size() -> nat { 48 }
    #[verifier::external_body]
    fn size_with(ctx: &scroll::Endian) -> (r: usize) { 48 }
}
impl scroll::ctx::TryIntoCtx<scroll::Endian> for MDRawThread {
    type Error = scroll::Error;
    open spec fn ser(self) -> Seq<u8> { ser_thread(self) }
    #[verifier::external_body]
    fn try_into_ctx(self, dst: &mut [u8], ctx: scroll::Endian) -> (r: Result<usize, scroll::Error>) { unimplemented!() }
}

/// ThreadInfoX86: registers of one stopped thread as ptrace reports them
pub struct ThreadInfo { pub stack_pointer: usize, pub rip: u64, pub snapshot: u64 }
/// what PTRACE_GETREGS / GETFPREGS / PEEKUSER report for thread `tid` of process `pid` while it is stopped (kernel, L5)
pub uninterp spec fn thread_info_of(pid: Pid, tid: Pid) -> ThreadInfo;
/// the register map ThreadInfoX86::fill_cpu_context (decided by Kani on the real type, all registers symbolic)
pub uninterp spec fn thread_cpu(info: ThreadInfo, init: RawContextCPU) -> RawContextCPU;
/// the register map CrashContext::fill_cpu_context (same)
pub uninterp spec fn crash_cpu(ctx: CrashContext, init: RawContextCPU) -> RawContextCPU;
impl ThreadInfo {
    pub open spec fn ip(&self) -> usize { self.rip as usize }
    #[verifier::external_body]
    pub fn create(pid: Pid, tid: Pid) -> (r: Result<ThreadInfo, ThreadInfoError>)
        ensures r is Ok ==> r->Ok_0 == thread_info_of(pid, tid)
    { unimplemented!() }
    #[verifier::external_body]
    pub fn get_instruction_pointer(&self) -> (r: usize) ensures r == self.ip() { unimplemented!() }
    #[verifier::external_body]
    pub fn fill_cpu_context(&self, out: &mut RawContextCPU)
        ensures *final(out) == thread_cpu(*self, *old(out))
    { unimplemented!() }
}
impl CrashContext {
    #[verifier::external_body]
    pub fn fill_cpu_context(&self, out: &mut RawContextCPU)
        ensures *final(out) == crash_cpu(*self, *old(out))
    { unimplemented!() }
}
}

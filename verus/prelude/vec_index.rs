// ---------------------------------------------------------------------------
// prelude/vec_index.rs — TRUSTED: semantics of `Vec<T>[range]` as a place that is
// mutably borrowed. vstd has the spec for `[T]: IndexMut<Range<usize>>` but none
// for the generic `Vec<T, A>: IndexMut<I>`; an assume_specification has to repeat
// the generic signature, so the meaning is given through an uninterpreted
// predicate plus one axiom per index type that the code under proof uses.
// Rust's own bounds check (`a <= b <= len`, else panic) cannot be attached here
// ("trait method implementation cannot declare requires clauses"), so every use
// site gets an explicit inserted `assert(a <= b <= v@.len())` obligation instead.
// ---------------------------------------------------------------------------
verus! {
pub uninterp spec fn vec_index_mut_post<T, I: core::slice::SliceIndex<[T]>>(
    index: I, old_v: Seq<T>, fin_v: Seq<T>,
    out: &<I as core::slice::SliceIndex<[T]>>::Output,
    fin_out: &<I as core::slice::SliceIndex<[T]>>::Output) -> bool;

pub assume_specification<T, I: core::slice::SliceIndex<[T]>, A: core::alloc::Allocator>
    [ <Vec<T, A> as core::ops::IndexMut<I>>::index_mut ]
    (v: &mut Vec<T, A>, index: I) -> (r: &mut <Vec<T, A> as core::ops::Index<I>>::Output)
    ensures vec_index_mut_post::<T, I>(index, old(v)@, final(v)@, r, final(r));

pub broadcast axiom fn axiom_vec_index_mut_range<T>(
    index: core::ops::Range<usize>, old_v: Seq<T>, fin_v: Seq<T>, out: &[T], fin_out: &[T])
    requires #[trigger] vec_index_mut_post::<T, core::ops::Range<usize>>(index, old_v, fin_v, out, fin_out)
    ensures
        vstd::std_specs::slice::generic_slice_in_bounds(&index, old_v) ==>
        vstd::std_specs::slice::generic_slice_index_mut_postcondition(&index, old_v, fin_v, out@, fin_out@);
}

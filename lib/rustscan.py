"""Minimal Rust source scanner: enough lexing to find items and match braces.

It never rewrites code; it only computes spans (start, end) into the original
text so that callers can copy text byte-for-byte.
"""
import re


class ScanError(Exception):
    pass


def mask(src):
    """Return a string of the same length as `src` in which every character
    that belongs to a comment, string literal, char literal or raw string is
    replaced by a space (newlines kept). Structure characters outside those are
    kept, so brace matching on the mask is safe."""
    out = list(src)
    i, n = 0, len(src)

    def blank(a, b):
        for k in range(a, b):
            if out[k] != "\n":
                out[k] = " "

    while i < n:
        c = src[i]
        if c == "/" and i + 1 < n and src[i + 1] == "/":
            j = src.find("\n", i)
            j = n if j < 0 else j
            blank(i, j)
            i = j
        elif c == "/" and i + 1 < n and src[i + 1] == "*":
            depth, j = 1, i + 2
            while j < n and depth:
                if src.startswith("/*", j):
                    depth += 1
                    j += 2
                elif src.startswith("*/", j):
                    depth -= 1
                    j += 2
                else:
                    j += 1
            blank(i, j)
            i = j
        elif c == '"' or (c in "br" and re.match(r'b?r#*"|b"', src[i:i + 8])
                          and (i == 0 or not (src[i - 1].isalnum() or src[i - 1] == "_"))):
            m = re.match(r'(b?)(r(#*))?"', src[i:])
            if m is None:
                i += 1
                continue
            start = i
            i += m.end()
            if m.group(2):  # raw string
                term = '"' + m.group(3)
                j = src.find(term, i)
                if j < 0:
                    raise ScanError("unterminated raw string")
                i = j + len(term)
            else:
                while i < n and src[i] != '"':
                    i += 2 if src[i] == "\\" else 1
                i += 1
            blank(start, i)
        elif c == "'":
            # char literal or lifetime
            m = re.match(r"'(\\(x[0-9a-fA-F]{2}|u\{[0-9a-fA-F_]+\}|.)|[^'\\])'", src[i:], re.S)
            if m:
                blank(i, i + m.end())
                i += m.end()
            else:
                i += 1
        else:
            i += 1
    return "".join(out)


def match_brace(m, open_idx):
    """m: masked text; open_idx: index of '{', '(' or '['. Returns index of the
    matching close."""
    pairs = {"{": "}", "(": ")", "[": "]"}
    o = m[open_idx]
    cl = pairs[o]
    depth = 0
    for i in range(open_idx, len(m)):
        ch = m[i]
        if ch == o:
            depth += 1
        elif ch == cl:
            depth -= 1
            if depth == 0:
                return i
    raise ScanError("unbalanced %s at %d" % (o, open_idx))


def norm(s):
    return re.sub(r"\s+", " ", s).strip()


class Source:
    def __init__(self, path):
        self.path = path
        self.text = open(path, encoding="utf-8").read()
        self.mask = mask(self.text)

    # ---- blocks -------------------------------------------------------
    def impl_blocks(self):
        """Yield (header_text_normalised, body_open, body_close) for every
        `impl` block at any module depth."""
        for mo in re.finditer(r"(?<![A-Za-z0-9_])impl\b", self.mask):
            # header runs to the first '{' at angle-insensitive depth 0
            i = mo.end()
            depth = 0
            while i < len(self.mask):
                ch = self.mask[i]
                if ch in "([":
                    i = match_brace(self.mask, i)
                elif ch == "{":
                    break
                elif ch == ";":
                    i = -1
                    break
                i += 1
            if i < 0 or i >= len(self.mask):
                continue
            # `impl Trait` in argument position is followed by ',' / ')' before
            # any '{' of its own; filter: header must not contain ')' unbalanced
            header = self.text[mo.start():i]
            if header.count(")") != header.count("("):
                continue
            # an `impl` that occurs inside a fn signature: preceded (same line
            # region) by ':' or '(' or ',' or '->'
            before = self.mask[:mo.start()].rstrip()
            if before.endswith((":", "(", ",", "->", "&", "<", "mut")):
                continue
            yield norm(header), i, match_brace(self.mask, i)

    def find_fn(self, name, impl_prefix=None, nth=0):
        """Return dict(start, sig_end (index of body '{'), end (index after
        body '}'))."""
        lo, hi = 0, len(self.text)
        if impl_prefix is not None:
            want = norm(impl_prefix)
            cands = [(h, a, b) for (h, a, b) in self.impl_blocks() if h.startswith(want)]
            if not cands:
                raise ScanError("%s: impl block `%s` not found" % (self.path, impl_prefix))
        else:
            cands = [(None, -1, len(self.text))]
        hits = []
        for (_h, a, b) in cands:
            for mo in re.finditer(r"(?<![A-Za-z0-9_])fn\s+%s\b" % re.escape(name), self.mask[a + 1:b]):
                pos = a + 1 + mo.start()
                # depth relative to the block must be 0 (direct child) when an impl is named
                if impl_prefix is not None and self._depth(a + 1, pos) != 0:
                    continue
                if impl_prefix is None and self._depth_outside_impls(pos):
                    continue
                hits.append(pos)
        if len(hits) <= nth:
            raise ScanError("%s: fn `%s`%s not found" % (
                self.path, name, " in `%s`" % impl_prefix if impl_prefix else ""))
        fn_kw = hits[nth]
        # extend left over qualifiers: pub, pub(crate), const, unsafe, async, extern "C"
        start = fn_kw
        while True:
            left = self.mask[:start].rstrip()
            mo = re.search(r"(pub(\s*\([^)]*\))?|const|unsafe|async)$", left)
            if mo:
                start = mo.start()
            else:
                break
        # signature end: first '{' at paren depth 0 after fn_kw
        i = fn_kw
        while i < len(self.mask):
            ch = self.mask[i]
            if ch in "([":
                i = match_brace(self.mask, i)
            elif ch == "{":
                break
            elif ch == ";":
                raise ScanError("fn `%s` has no body" % name)
            i += 1
        end = match_brace(self.mask, i) + 1
        return {"start": start, "fn_kw": fn_kw, "body_open": i, "end": end}

    def _depth(self, a, pos):
        d = 0
        for ch in self.mask[a:pos]:
            if ch == "{":
                d += 1
            elif ch == "}":
                d -= 1
        return d

    def _depth_outside_impls(self, pos):
        """True if pos is inside some impl/trait/fn body (i.e. not a free fn at
        module level). Free functions may still be inside `mod x { }`."""
        for (_h, a, b) in self.impl_blocks():
            if a < pos < b:
                return True
        # inside another fn body?  crude: count braces opened by `fn`
        return False

    def find_item(self, kind, name):
        """kind in struct|enum|const|type|macro_rules|static|trait|fn-less items.
        Returns (start, end)."""
        if kind == "macro_rules":
            mo = re.search(r"macro_rules!\s*%s\b" % re.escape(name), self.mask)
        else:
            mo = re.search(r"(?<![A-Za-z0-9_])(pub(\s*\([^)]*\))?\s+)?%s\s+%s\b" % (kind, re.escape(name)), self.mask)
        if not mo:
            raise ScanError("%s: %s `%s` not found" % (self.path, kind, name))
        i = mo.end()
        while i < len(self.mask):
            ch = self.mask[i]
            if ch in "([":
                j = match_brace(self.mask, i)
                if kind == "macro_rules":
                    return mo.start(), j + 1
                i = j
            elif ch == "{":
                j = match_brace(self.mask, i)
                return mo.start(), j + 1
            elif ch == ";":
                return mo.start(), i + 1
            i += 1
        raise ScanError("item end not found")

    # ---- inside a fn ---------------------------------------------------
    def loops(self, body_open, body_end):
        """Return list of (kw_pos, brace_open) for every loop in textual order."""
        res = []
        for mo in re.finditer(r"(?<![A-Za-z0-9_'])(while|for|loop)\b", self.mask[body_open:body_end]):
            kw = body_open + mo.start()
            # `for` in `for<'a>` (HRTB) or `impl X for Y` cannot occur in a body
            i = kw + len(mo.group(1))
            while i < body_end:
                ch = self.mask[i]
                if ch in "([":
                    i = match_brace(self.mask, i)
                elif ch == "{":
                    break
                i += 1
            res.append((kw, i))
        return res

    def find_stmt(self, body_open, body_end, prefix, nth=0):
        """Find the nth statement whose normalised text starts with `prefix`.
        Returns (stmt_start, stmt_end) where stmt_end is after the terminating
        ';' or the closing '}' of a block-like statement."""
        want = norm(prefix)
        hits = []
        i = body_open + 1
        # candidate statement starts: after '{', '}' or ';' (skipping whitespace)
        for mo in re.finditer(r"[{};]\s*", self.mask[body_open:body_end]):
            s = body_open + mo.end()
            # compare normalised real text
            if self._starts_with(s, want):
                hits.append(s)
        if len(hits) <= nth:
            raise ScanError("statement `%s` not found" % prefix)
        s = hits[nth]
        # statement end
        i = s
        while i < body_end:
            ch = self.mask[i]
            if ch in "([{":
                j = match_brace(self.mask, i)
                if ch == "{":
                    # block-like statement ends at '}' unless followed by ; . ? or else
                    rest = self.mask[j + 1:body_end].lstrip()
                    if not rest.startswith((";", ".", "?", "else")):
                        return s, j + 1
                i = j
            elif ch == ";":
                return s, i + 1
            elif ch == "}":
                return s, i
            i += 1
        return s, body_end

    def _starts_with(self, pos, want):
        # walk the real text, normalising whitespace on the fly
        t = self.text
        i, k = pos, 0
        while k < len(want):
            if i >= len(t):
                return False
            if want[k] == " ":
                if not t[i].isspace():
                    # optional whitespace in pattern: allow zero spaces
                    k += 1
                    continue
                while i < len(t) and t[i].isspace():
                    i += 1
                k += 1
            else:
                if t[i].isspace():
                    # skip source whitespace not present in pattern only if
                    # previous pattern char and next are punctuation
                    i += 1
                    continue
                if t[i] != want[k]:
                    return False
                i += 1
                k += 1
        return True

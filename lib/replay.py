"""Replay of a failing Kani harness on the real code, natively:
  1. rerun the harness with `-Z concrete-playback --concrete-playback=print` to get the
     counterexample as concrete byte vectors,
  2. append the generated #[test] to a temporary copy of the proofs module, re-point the
     injected `#[path]` at it,
  3. `cargo kani playback` builds the crate with plain rustc (cfg(kani), Kani's library providing
     kani::any() from the recorded values) and runs the harness natively: the real functions of
     /repo execute on the concrete input and the harness's assertion (the contract) fails.
Returns True when the native run reproduces a failure."""
import os
import re
import signal
import subprocess

import kani_run


def _run(cmd, cwd, env, timeout):
    import fcntl
    # same lock as kani_run.run: one cargo-kani per target directory at a time
    td = env.get("CARGO_TARGET_DIR", kani_run.TARGET)
    os.makedirs(td, exist_ok=True)
    lock_fh = open(td + ".lock", "w")
    fcntl.flock(lock_fh, fcntl.LOCK_EX)
    try:
        proc = subprocess.Popen(cmd, cwd=cwd, env=env, stdout=subprocess.PIPE, stderr=subprocess.STDOUT, text=True, start_new_session=True)
        try:
            out, _ = proc.communicate(timeout=timeout)
            return out
        except subprocess.TimeoutExpired:
            try:
                os.killpg(proc.pid, signal.SIGKILL)
            except ProcessLookupError:
                pass
            proc.communicate()
            return None
    finally:
        try:
            fcntl.flock(lock_fh, fcntl.LOCK_UN)
            lock_fh.close()
        except Exception:
            pass

PLAYBACK_TARGET = os.path.join(kani_run.VERIF, ".cache", "kani-playback-target")


def kani_concrete(v, rec, scratch, timeout=int(os.environ.get("VERIF_REPLAY_TIMEOUT", "600"))):
    crate, harness = v["crate"], v["harness"]
    env = dict(os.environ, CARGO_NET_OFFLINE="true", CARGO_TARGET_DIR=kani_run.TARGET)
    cmd = ["cargo", "kani"] + kani_run.BASE_ARGS + ["-Z", "concrete-playback", "--concrete-playback=print", "--harness", harness]
    lim = int(16 * 1024 * 1024)
    out = _run(["bash", "-c", "ulimit -v %d; exec " % lim + " ".join("'%s'" % c for c in cmd)], crate, env, timeout)
    if out is None:
        rec["note"] = "concrete playback timed out after %ds (VERIF_REPLAY_TIMEOUT); the violation stands, no input extracted" % timeout
        return False
    m = re.search(r"```\n(.*?)```", out, re.S)
    if not m:
        rec["note"] = "Kani printed no concrete playback test (no counterexample values available)"
        return False
    test_src = m.group(1)
    tn = re.search(r"fn (kani_concrete_playback_\w+)\(", test_src)
    if not tn:
        rec["note"] = "could not parse playback test"
        return False
    test_name = tn.group(1)
    vals = re.search(r"vec!\[(.*)\];\s*kani::concrete_playback_run", test_src, re.S)
    rec["failing_input"] = {"harness": harness,
                            "concrete_vals": re.sub(r"\s+", " ", vals.group(1)).strip() if vals else "",
                            "playback_test": test_src}
    # locate the proofs module that defines the harness
    proof_file = None
    for (pf, rel) in kani_run.proof_modules():
        if re.search(r"fn\s+%s\s*\(" % re.escape(harness), open(pf).read()):
            proof_file, target_rel = pf, rel
            break
    if proof_file is None:
        rec["note"] = "harness source not found"
        return False
    tmp = os.path.join(scratch, "playback_" + os.path.basename(proof_file))
    with open(tmp, "w") as fh:
        fh.write(open(proof_file).read() + "\n" + test_src + "\n")
    f = os.path.join(crate, target_rel)
    src = open(f).read().replace('#[path = "%s"]' % proof_file, '#[path = "%s"]' % tmp)
    open(f, "w").write(src)
    env2 = dict(os.environ, CARGO_NET_OFFLINE="true", CARGO_TARGET_DIR=PLAYBACK_TARGET, RUST_BACKTRACE="0")
    cmd2 = ["cargo", "kani", "playback", "-Z", "concrete-playback", "--lib", "--", test_name]
    nat = _run(cmd2, crate, env2, timeout)
    if nat is None:
        rec["note"] = "native playback timed out"
        return False
    rec["native_replay_cmd"] = " ".join(cmd2)
    pm = re.findall(r"panicked at ([^\n]*)\n([^\n]*)", nat)
    rec["native_replay_output"] = nat[-3000:]
    failed = "test result: FAILED" in nat or bool(pm)
    if failed:
        rec["observed"] = "; ".join("%s: %s" % (a, b) for (a, b) in pm[:3])
        rec["note"] = "native run of the real code on the counterexample reproduces the failure"
    else:
        rec["note"] = "native run did not fail (counterexample depends on stubbed callees or on Kani's memory model)"
    return failed

"""Native replays: run the real code (plain rustc, debug profile) on concrete inputs.
in_crate: inject `#[cfg(test)] #[path=…] mod __replay_<stem>;` into a scratch copy and run `cargo test --lib`.
tests   : copy replay/native/<name>.rs into the scratch copy's tests/ and run `cargo test --test <name>`."""
import os
import re
import signal
import subprocess


def _run(cmd, cwd, env, timeout):
    """run with a time bound; output goes to a file, not a pipe: a helper process that a failing test left behind
    keeps a pipe open and would make us wait for the timeout although cargo has long exited. Afterwards (and on
    timeout) the whole process group is killed (cargo, the test binary, stray children)."""
    import tempfile
    import fcntl
    # one native build+run at a time per target directory: the test binary's file name does not depend on the path of
    # the scratch copy, so two concurrent checks of different trees could run each other's binary
    td = env.get("CARGO_TARGET_DIR")
    lock_fh = None
    if td:
        os.makedirs(td, exist_ok=True)
        lock_fh = open(td + ".lock", "w")
        fcntl.flock(lock_fh, fcntl.LOCK_EX)
    try:
        return _run_locked(cmd, cwd, env, timeout)
    finally:
        if lock_fh:
            try:
                fcntl.flock(lock_fh, fcntl.LOCK_UN)
                lock_fh.close()
            except Exception:
                pass


def _run_locked(cmd, cwd, env, timeout):
    import tempfile
    with tempfile.TemporaryFile(mode="w+", errors="replace") as fh:
        proc = subprocess.Popen(cmd, cwd=cwd, env=env, stdout=fh, stderr=subprocess.STDOUT, stdin=subprocess.DEVNULL, start_new_session=True)
        timed_out = False
        try:
            proc.wait(timeout=timeout)
        except subprocess.TimeoutExpired:
            timed_out = True
        try:
            os.killpg(proc.pid, signal.SIGKILL)
        except (ProcessLookupError, PermissionError):
            pass
        if timed_out:
            proc.wait()
        fh.seek(0)
        out = fh.read()
    if timed_out:
        return -9, out + "\n[verif] native run timed out after %ds\n" % timeout
    return proc.returncode, out

VERIF = os.path.abspath(os.path.join(os.path.dirname(os.path.abspath(__file__)), ".."))
TARGET = os.environ.get("VERIF_NATIVE_TARGET", os.path.join(VERIF, ".cache", "native-target"))


def _copy(repo, scratch):
    crate = os.path.join(scratch, "native-crate")
    subprocess.run(["rsync", "-a", "--delete", "--exclude", "target", "--exclude", ".git", "--exclude", "_seed",
                    repo.rstrip("/") + "/", crate + "/"], check=True)
    return crate


def run_in_crate(repo, scratch, stem, test_filter="", timeout=600):
    crate = _copy(repo, scratch)
    import glob
    # inject every in-crate replay module (they may use each other's helpers)
    for src in sorted(glob.glob(os.path.join(VERIF, "replay", "in_crate", "*.rs"))):
        head = open(src).read(500)
        rel = re.search(r"^//@inject\s+(\S+)", head, re.M).group(1)
        st = os.path.splitext(os.path.basename(src))[0]
        with open(os.path.join(crate, rel), "a") as fh:
            fh.write('\n#[cfg(test)]\n#[path = "%s"]\npub(crate) mod __replay_%s;\n' % (src, st))
    env = dict(os.environ, CARGO_TARGET_DIR=TARGET, CARGO_NET_OFFLINE="true", RUST_BACKTRACE="0")
    cmd = ["cargo", "test", "--offline", "--lib", "__replay_%s::%s" % (stem, test_filter), "--", "--test-threads", "1", "--nocapture"]
    rc, out = _run(cmd, crate, env, timeout)
    return rc, out, " ".join(cmd)


def run_test_file(repo, scratch, name, timeout=600):
    crate = _copy(repo, scratch)
    src = os.path.join(VERIF, "replay", "native", name + ".rs")
    subprocess.run(["cp", src, os.path.join(crate, "tests", name + ".rs")], check=True)
    env = dict(os.environ, CARGO_TARGET_DIR=TARGET, CARGO_NET_OFFLINE="true", RUST_BACKTRACE="0")
    cmd = ["cargo", "test", "--offline", "--test", name]
    rc, out = _run(cmd, crate, env, timeout)
    return rc, out, " ".join(cmd)


if __name__ == "__main__":
    import sys
    kind, name = sys.argv[1], sys.argv[2]
    repo = sys.argv[3] if len(sys.argv) > 3 else "/repo"
    os.makedirs("/var/tmp/verif-native", exist_ok=True)
    if kind == "in_crate":
        rc, out, cmd = run_in_crate(repo, "/var/tmp/verif-native", name, sys.argv[4] if len(sys.argv) > 4 else "")
    else:
        rc, out, cmd = run_test_file(repo, "/var/tmp/verif-native", name)
    print(cmd)
    print(out[-3000:])
    sys.exit(rc)

"""Expand a Verus unit template: splice contracts into function text that is
copied byte-for-byte from /repo on every run.

Directive syntax inside a template (`verus/units/<unit>.rs.in`):

  //@fn <relpath> [impl="<impl header prefix>"] name=<fn> [ret=<ident>] [nth=<k>]
  //@      [external_body] [vis=<text>] [rename=<ident>]
  //@| <spec text placed between the signature and the body>
  //@loop <ordinal> [iter=<ident>]
  //@| <invariant / decreases text placed between the loop head and its '{'>
  //@      (iter=<ident>: `for PAT in EXPR` becomes `for PAT in <ident>: EXPR`, Verus's syntax for naming the ghost iterator)
  //@      (enum=<ident>: `for (I, PAT) in EXPR.iter().enumerate() {` becomes
  //@       `let <ident> = EXPR; for I in 0..<ident>.len() { let PAT = &<ident>[I];` -- a loop-head rewriting, see below)
  //@      (index=<ident>: `for PAT in &EXPR {` becomes `let <ident> = &EXPR; let mut <ident>_i: usize = 0;
  //@       while <ident>_i < <ident>.len() { let PAT = &<ident>[<ident>_i]; <ident>_i += 1;` -- for bodies with `continue`)
  //@before "<statement prefix>" [nth=<k>]
  //@| <proof text placed before that statement>
  //@in_loop <ordinal>
  //@| <proof text placed at the start of that loop's body>
  //@before_loop <ordinal>
  //@| <proof text (ghost declarations) placed in front of that loop statement: an anchor that survives renamed locals>
  //@in_loop_end <ordinal>
  //@| <proof text placed at the end of that loop's body (before its closing brace)>
  //@after_text "<exact text>" [nth=<k>]
  //@| <spec text placed right after that text (closure contracts: `-> (r: T) requires .. ensures ..`)>
  //@closure "<|params| text>" [nth=<k>]
  //@| <closure contract `-> (r: T) requires .. ensures ..`; the closure must be the sole argument of a call:
  //@      `CALL(|params| BODY)` becomes `CALL(|params| <contract> { BODY })`>
  //@drop "<statement prefix>" [nth=<k>]
  //@end

  //@item <relpath> <kind> <name> [strip_attrs]     -- struct/enum/const/type/macro_rules, verbatim
  //@include <file relative to verus/>               -- hand-written prelude / lemma text

What extraction changes (exhaustive; also recorded per function in the report):
  * the named return `-> T` becomes `-> (ret: T)` when ret= is given;
  * rename=<ident> renames the extracted fn (several files define `write`; obligations are named per fn);
  * spec text (`//@|` lines) is inserted at the three kinds of places above;
  * //@closure gives a closure argument its contract and wraps its body in braces (`{ BODY }`), nothing of BODY changes;
  * with iter=<ident> a `for` loop's ghost iterator is named (`in <ident>: EXPR`), nothing of PAT or EXPR changes;
  * with enum=<ident> the HEAD of a `for (I, PAT) in EXPR.iter().enumerate()` loop is rewritten into the index
    loop it abbreviates (Verus has no specification of core::iter::Enumerate and refuses one); I, PAT, EXPR and the
    loop body are unchanged, the rewriting is recorded per function (`desugared_loops`); likewise index=<ident>
    turns `for PAT in &EXPR` into the counting `while` loop it abbreviates (Verus's `for` has no `continue`);
  * attributes and doc comments in front of the fn are not copied;
  * statements named by //@drop are removed (logging macros only);
  * with external_body the body is replaced by `{ unimplemented!() }` and the fn
    gets #[verifier::external_body] (its contract is then an assumption).
Nothing else of the body is touched: the pieces of original text are copied
verbatim and their concatenation is re-checked against the source span.
"""
import hashlib
import os
import re
import shlex
import sys

sys.path.insert(0, os.path.dirname(os.path.abspath(__file__)))
from rustscan import Source, ScanError, match_brace, norm  # noqa: E402


class ExtractError(Exception):
    """Anchor lost / shape changed: the unit is undecided, never an alarm."""


def _parse_kv(tokens):
    pos, kv = [], {}
    for t in tokens:
        if "=" in t and re.match(r"^[a-z_]+=", t):
            k, v = t.split("=", 1)
            kv[k] = v
        else:
            pos.append(t)
    return pos, kv


def _name_ret(sig, ret):
    """`-> T [where ...]` => `-> (ret: T) [where ...]` on an (unmasked) signature."""
    from rustscan import mask as _mask
    m = _mask(sig)
    # find the parameter list: first '(' after `fn name` (skip generics <...>)
    i = m.index("(")
    j = match_brace(m, i)
    k = m.find("->", j)
    if k < 0:
        raise ExtractError("ret= given but signature has no return type: %s" % norm(sig))
    # type ends at `where` (word, depth 0) or end
    depth = 0
    end = len(m)
    p = k + 2
    while p < len(m):
        ch = m[p]
        if ch in "(<[":
            depth += 1
        elif ch in ")>]":
            # '->' inside Fn types: handle "->" by skipping '>' that follows '-'
            if not (ch == ">" and m[p - 1] == "-"):
                depth -= 1
        elif depth == 0 and re.match(r"where\b", m[p:]) and not (m[p - 1].isalnum() or m[p - 1] == "_"):
            end = p
            break
        p += 1
    ty = sig[k + 2:end].strip()
    tail = sig[end:]
    return sig[:k] + "-> (%s: %s)\n    %s" % (ret, ty, tail)


class Expander:
    def __init__(self, repo, verus_dir):
        self.repo = repo
        self.verus_dir = verus_dir
        self.sources = {}
        self.report = []  # per extracted fn/item
        self.trust = []   # external_body etc.
        self.callee_contracts = []  # fns included by contract only (proved in their own unit)

    def src(self, rel):
        if rel not in self.sources:
            p = os.path.join(self.repo, rel)
            if not os.path.exists(p):
                raise ExtractError("source file %s missing" % rel)
            self.sources[rel] = Source(p)
        return self.sources[rel]

    def expand_file(self, path, force_external=False):
        lines = open(path, encoding="utf-8").read().split("\n")
        out = []
        i = 0
        while i < len(lines):
            ln = lines[i]
            s = ln.strip()
            if s.startswith("//@fn "):
                # collect directive block until //@end
                block = [s]
                i += 1
                while i < len(lines) and lines[i].strip() != "//@end":
                    block.append(lines[i].strip())
                    i += 1
                if i >= len(lines):
                    raise ExtractError("%s: //@fn without //@end" % path)
                out.append(self.expand_fn(block, force_external))
            elif s.startswith("//@item "):
                out.append(self.expand_item(s))
            elif s.startswith("//@include "):
                parts = s.split()
                inc = os.path.join(self.verus_dir, parts[1])
                # `contracts_only`: every fn of the included file keeps its contract but loses its body
                # (it is proved in its own unit; here it is a callee known by contract only)
                out.append(self.expand_file(inc, force_external or ("contracts_only" in parts[2:])))
            else:
                out.append(ln)
            i += 1
        return "\n".join(out)

    def expand_item(self, line):
        toks = shlex.split(line[len("//@item "):])
        rel, kind, name = toks[0], toks[1], toks[2]
        try:
            S = self.src(rel)
            a, b = S.find_item(kind, name)
        except ScanError as e:
            raise ExtractError(str(e))
        text = S.text[a:b]
        if "strip_field_attrs" in toks[3:]:
            text = re.sub(r"^\s*#\[[^\]]*\]\s*$\n?", "", text, flags=re.M)
            text = re.sub(r"^\s*///?.*$\n?", "", text, flags=re.M)
        self.report.append({
            "kind": kind, "name": name, "file": rel,
            "sha256": hashlib.sha256(S.text[a:b].encode()).hexdigest(),
            "lines": [S.text.count("\n", 0, a) + 1, S.text.count("\n", 0, b) + 1],
        })
        return text

    def expand_fn(self, block, force_external=False):
        head = block[0][len("//@fn "):]
        # continuation lines "//@ ..." (not "//@|", not a sub-directive) extend the head
        k = 1
        while k < len(block) and block[k].startswith("//@ ") :
            head += " " + block[k][4:]
            k += 1
        pos, kv = _parse_kv(shlex.split(head))
        rel = pos[0]
        flags = set(pos[1:])
        name = kv["name"]
        impl = kv.get("impl")
        nth = int(kv.get("nth", "0"))
        # parse sub-blocks
        sig_spec, loops, befores, drops, after_texts, in_loops = [], {}, [], [], [], []
        loop_iters = {}
        in_loop_ends = []
        before_loops = []
        loop_enums = {}
        loop_index = {}
        desugared = []
        closures = []
        cur = sig_spec
        for b in block[k:]:
            if b.startswith("//@|"):
                cur.append(b[4:].lstrip(" ") if b[4:5] == " " else b[4:])
            elif b.startswith("//@loop "):
                cur = loops.setdefault(int(b.split()[1]), [])
                for w in b.split()[2:]:
                    if w.startswith("iter="):
                        loop_iters[int(b.split()[1])] = w[5:]
                    if w.startswith("enum="):
                        loop_enums[int(b.split()[1])] = w[5:]
                    if w.startswith("index="):
                        loop_index[int(b.split()[1])] = w[6:]
            elif b.startswith("//@before "):
                t = shlex.split(b[len("//@before "):])
                _p, _kv = _parse_kv(t)
                cur = []
                befores.append((_p[0], int(_kv.get("nth", "0")), cur))
            elif b.startswith("//@before_loop "):
                cur = []
                before_loops.append((int(b.split()[1]), cur))
            elif b.startswith("//@in_loop_end "):
                cur = []
                in_loop_ends.append((int(b.split()[1]), cur))
            elif b.startswith("//@in_loop "):
                cur = []
                in_loops.append((int(b.split()[1]), cur))
            elif b.startswith("//@after_text "):
                t = shlex.split(b[len("//@after_text "):])
                _p, _kv = _parse_kv(t)
                cur = []
                after_texts.append((_p[0], int(_kv.get("nth", "0")), cur))
            elif b.startswith("//@closure "):
                t = shlex.split(b[len("//@closure "):])
                _p, _kv = _parse_kv(t)
                cur = []
                closures.append((_p[0], int(_kv.get("nth", "0")), cur))
            elif b.startswith("//@drop "):
                t = shlex.split(b[len("//@drop "):])
                _p, _kv = _parse_kv(t)
                drops.append((_p[0], int(_kv.get("nth", "0"))))
                cur = []
            elif b == "" or b.startswith("//"):
                continue
            else:
                raise ExtractError("bad directive line: %s" % b)
        try:
            S = self.src(rel)
            d = S.find_fn(name, impl, nth)
        except ScanError as e:
            raise ExtractError(str(e))
        start, bo, end = d["start"], d["body_open"], d["end"]
        sig = S.text[start:bo].rstrip()
        orig_sig = sig
        if "vis" in kv:
            sig = re.sub(r"^(pub(\s*\([^)]*\))?\s+)?", kv["vis"] + " " if kv["vis"] else "", sig, count=1)
        if "rename" in kv:
            sig = re.sub(r"\bfn\s+%s\b" % re.escape(name), "fn " + kv["rename"], sig, count=1)
        if "ret" in kv:
            sig = _name_ret(sig, kv["ret"])
        body = S.text[bo:end]
        n_loops = len(S.loops(bo, end))
        if force_external and "external_body" not in flags:
            text = "#[verifier::external_body]\n" + sig + "\n" + "\n".join("    " + x for x in sig_spec) + "\n{ unimplemented!() }\n"
            self.callee_contracts.append("%s::%s" % (rel, name))
            return text
        if "external_body" in flags:
            self.trust.append("external_body: %s::%s (contract assumed by this unit)" % (rel, name))
            text = "#[verifier::external_body]\n" + sig + "\n" + "\n".join("    " + x for x in sig_spec) + "\n{ unimplemented!() }\n"
            self._rec(S, rel, name, impl, start, end, n_loops, external=True)
            return text
        # every loop must have a contract
        if sorted(loops.keys()) != list(range(n_loops)) and not (n_loops == 0 and not loops):
            missing = sorted(set(range(n_loops)) - set(loops.keys()))
            extra = sorted(set(loops.keys()) - set(range(n_loops)))
            raise ExtractError("%s::%s: loop shape changed (has %d loops; no contract for %s; stale contract for %s)"
                               % (rel, name, n_loops, missing, extra))
        # build insertion list: (abs position, text) ; and deletions (a,b)
        ins, dels = [], []
        for (ordinal, txt) in before_loops:
            lp = S.loops(bo, end)
            if ordinal >= len(lp):
                raise ExtractError("%s::%s: no loop %d" % (rel, name, ordinal))
            ins.append((lp[ordinal][0], "\n".join(txt) + "\n        "))
        for ordinal, (kw, brace) in enumerate(S.loops(bo, end)):
            ins.append((brace, "\n" + "\n".join("            " + x for x in loops[ordinal]) + "\n        "))
            if ordinal in loop_iters:
                # `for PAT in EXPR {`  ->  `for PAT in <ghost>: EXPR {` : Verus's syntax for naming the loop's ghost
                # iterator (pure annotation, like `-> (ret: T)`); only valid on a `for` loop
                if not S.mask.startswith("for", kw):
                    raise ExtractError("%s::%s: loop %d is not a `for` loop (iter= given)" % (rel, name, ordinal))
                mo = re.search(r"\sin\s", S.mask[kw:brace])
                if not mo:
                    raise ExtractError("%s::%s: loop %d: no `in`" % (rel, name, ordinal))
                ins.append((kw + mo.end(), loop_iters[ordinal] + ": "))
            if ordinal in loop_enums:
                # `for (IDX, PAT) in EXPR.iter().enumerate() {`  ->
                # `let <id> = EXPR; for IDX in 0..<id>.len() <contract> { let PAT = &<id>[IDX];`
                # The ONE rewriting the extractor performs (Verus has no specification of core::iter::Enumerate and
                # refuses one for a provided trait method). It rests on the std contract "slice::Iter yields &s[0],
                # &s[1], .. in order and Enumerate pairs the k-th item with k" (assumption ledger 3c); IDX, PAT, EXPR
                # and the whole loop body are copied unchanged.
                head = S.text[kw:brace]
                mh = re.match(r"for\s*\(\s*(\w+)\s*,\s*(.+?)\s*\)\s+in\s+(.+?)\s*\.iter\(\)\s*\.enumerate\(\)\s*$", head, re.S)
                if not mh or not S.mask.startswith("for", kw):
                    raise ExtractError("%s::%s: loop %d is not `for (i, x) in E.iter().enumerate()` (enum= given)" % (rel, name, ordinal))
                idv, pat, expr = mh.group(1), mh.group(2), mh.group(3)
                gid = loop_enums[ordinal]
                ins.append((kw, "let %s = %s;\n        for %s in 0..%s.len() " % (gid, expr, idv, gid)))
                dels.append((kw, brace, "desugared"))
                ins.append((brace + 1, "\n            let %s = &%s[%s];" % (pat, gid, idv)))
                desugared.append({"loop": ordinal, "original": norm(head),
                                  "becomes": "let %s = %s; for %s in 0..%s.len() { let %s = &%s[%s]; .. }" % (gid, norm(expr), idv, gid, pat, gid, idv)})
            if ordinal in loop_index:
                # `for PAT in &EXPR {`  ->  `let <id> = &EXPR; let mut <id>_i: usize = 0;
                #                            while <id>_i < <id>.len() <contract> { let PAT = &<id>[<id>_i]; <id>_i += 1;`
                # (Verus's `for` does not support `continue`; its `while` does.) Same std contract as enum=: a shared
                # borrow of a Vec/slice iterates &s[0], &s[1], .. in order (ledger 3c). The counter is advanced at the top
                # of the body, so `continue` and `break` in the unchanged body mean what they meant.
                head = S.text[kw:brace]
                mh = re.match(r"for\s+(\w+)\s+in\s+&\s*(.+?)\s*$", head, re.S)
                if not mh or not S.mask.startswith("for", kw):
                    raise ExtractError("%s::%s: loop %d is not `for x in &E` (index= given)" % (rel, name, ordinal))
                pat, expr = mh.group(1), mh.group(2)
                gid = loop_index[ordinal]
                ins.append((kw, "let %s = &%s;\n        let mut %s_i: usize = 0;\n        while %s_i < %s.len() " % (gid, expr, gid, gid, gid)))
                dels.append((kw, brace, "desugared"))
                ins.append((brace + 1, "\n            let %s = &%s[%s_i]; %s_i += 1;" % (pat, gid, gid, gid)))
                desugared.append({"loop": ordinal, "original": norm(head),
                                  "becomes": "let %s = &%s; let mut %s_i = 0; while %s_i < %s.len() { let %s = &%s[%s_i]; %s_i += 1; .. }" % (gid, norm(expr), gid, gid, gid, pat, gid, gid, gid)})
        for (prefix, k2, txt) in befores:
            try:
                a, _b = S.find_stmt(bo, end, prefix, k2)
            except ScanError as e:
                raise ExtractError("%s::%s: %s" % (rel, name, e))
            ins.append((a, "\n".join(txt) + "\n        "))
        for (ordinal, txt) in in_loops:
            lp = S.loops(bo, end)
            if ordinal >= len(lp):
                raise ExtractError("%s::%s: no loop %d" % (rel, name, ordinal))
            ins.append((lp[ordinal][1] + 1, "\n" + "\n".join(txt) + "\n"))
        for (ordinal, txt) in in_loop_ends:
            lp = S.loops(bo, end)
            if ordinal >= len(lp):
                raise ExtractError("%s::%s: no loop %d" % (rel, name, ordinal))
            ins.append((match_brace(S.mask, lp[ordinal][1]), "\n" + "\n".join(txt) + "\n"))
        for (needle, k2, txt) in after_texts:
            # exact text occurrence inside the body (used to give a closure its contract:
            # the text is inserted right after the closure's parameter list)
            pos_ = -1
            start_ = bo
            for _ in range(k2 + 1):
                pos_ = S.text.find(needle, start_, end)
                if pos_ < 0:
                    raise ExtractError("%s::%s: text anchor `%s` not found" % (rel, name, needle))
                start_ = pos_ + 1
            ins.append((pos_ + len(needle), " " + "\n".join(txt) + "\n"))
        for (needle, k2, txt) in closures:
            # a closure that is the (last) argument of a call: `CALL(|params| BODY)` becomes
            # `CALL(|params| <spec> { BODY })`. The anchor is the parameter list text; the body ends at the
            # call's closing parenthesis (braces around an expression do not change it).
            pos_ = -1
            start_ = bo
            for _ in range(k2 + 1):
                pos_ = S.text.find(needle, start_, end)
                if pos_ < 0:
                    raise ExtractError("%s::%s: closure anchor `%s` not found" % (rel, name, needle))
                start_ = pos_ + 1
            q = pos_ - 1
            while q > bo and S.mask[q] in " \t\r\n":
                q -= 1
            if S.mask[q] != "(":
                raise ExtractError("%s::%s: closure `%s` is not the sole argument of a call" % (rel, name, needle))
            close = match_brace(S.mask, q)
            ins.append((pos_ + len(needle), " " + "\n".join(txt) + "\n{ "))
            ins.append((close, " }"))
        for (prefix, k2) in drops:
            try:
                a, b2 = S.find_stmt(bo, end, prefix, k2)
            except ScanError as e:
                raise ExtractError("%s::%s: %s" % (rel, name, e))
            dels.append((a, b2, "dropped"))
        # compose
        pieces, origs = [], []
        cursor = bo
        events = sorted([(p, 0, t, "") for (p, t) in ins] + [(a, 1, b2, why) for (a, b2, why) in dels], key=lambda x: (x[0], x[1]))
        for (p, kind, payload, why) in events:
            if p < cursor:
                raise ExtractError("%s::%s: overlapping anchors" % (rel, name))
            pieces.append(S.text[cursor:p])
            origs.append(S.text[cursor:p])
            if kind == 0:
                pieces.append(payload)
                cursor = p
            else:
                origs.append(S.text[p:payload])  # dropped text still part of the source span
                pieces.append("/* %s: %s */" % (why, norm(S.text[p:payload])[:80].replace("*/", "")))
                cursor = payload
        pieces.append(S.text[cursor:end])
        origs.append(S.text[cursor:end])
        assert "".join(origs) == S.text[bo:end], "verbatim re-check failed"
        text = sig + "\n" + "\n".join("    " + x for x in sig_spec) + "\n" + "".join(pieces) + "\n"
        self._rec(S, rel, kv.get("rename", name), impl, start, end, n_loops, dropped=[norm(S.text[a:b2]) for (a, b2, why) in dels if why == "dropped"], desugared=desugared)
        return text

    def _rec(self, S, rel, name, impl, start, end, n_loops, external=False, dropped=(), desugared=()):
        self.report.append({
            "kind": "fn", "name": name, "impl": impl, "file": rel,
            "lines": [S.text.count("\n", 0, start) + 1, S.text.count("\n", 0, end) + 1],
            "sha256": hashlib.sha256(S.text[start:end].encode()).hexdigest(),
            "loops": n_loops, "external_body": external, "dropped": list(dropped),
            "desugared_loops": list(desugared),
        })


def main():
    import argparse
    import json
    ap = argparse.ArgumentParser()
    ap.add_argument("template")
    ap.add_argument("--repo", default="/repo")
    ap.add_argument("-o", "--out", required=True)
    a = ap.parse_args()
    vd = os.path.join(os.path.dirname(os.path.abspath(__file__)), "..", "verus")
    ex = Expander(a.repo, os.path.abspath(vd))
    try:
        txt = ex.expand_file(a.template)
    except ExtractError as e:
        print("UNDECIDED extract: %s" % e)
        sys.exit(2)
    open(a.out, "w").write(txt)
    json.dump({"report": ex.report, "trust": ex.trust}, open(a.out + ".extract.json", "w"), indent=1)


if __name__ == "__main__":
    main()

"""Run one Verus unit: expand the template from /repo's working tree, run verus,
classify the outcome per function."""
import json
import os
import re
import subprocess
import time

from extract import Expander, ExtractError

VERIF = os.path.abspath(os.path.join(os.path.dirname(os.path.abspath(__file__)), ".."))

SEMANTIC = [
    "postcondition not satisfied",
    "precondition not satisfied",
    "invariant not satisfied",
    "assertion failed",
    "possible arithmetic underflow/overflow",
    "possible division by zero",
    "decreases not satisfied",
    "possible bit shift underflow/overflow",
    "split assertion failure",
    "split precondition failure",
    "split postcondition failure",
    "could not prove termination",
    "unable to prove assertion safety condition",
    "failed precondition",
    "unable to prove post-condition of closure",
    "unable to prove pre-condition of closure",
    "index out of bounds",
    "possible overflow",
]
NONSEMANTIC_HINT = ["rlimit", "resource limit", "not supported", "unsupported", "E0", "internal"]


class UnitResult:
    def __init__(self, unit):
        self.unit = unit
        self.status = "undecided"      # ok | failed | undecided
        self.reason = ""
        self.functions = []            # [{function, success, time_ms, mode}]
        self.failures = []             # [{function, kind, message, line, tags, text}]
        self.probes_ok = []            # probes that failed as they must
        self.extract = {}
        self.trust = []
        self.wall_s = 0.0
        self.smt_ms = 0
        self.cmd = ""
        self.generated = ""
        self.stderr = ""
        self.clauses = []


def _fn_markers(text):
    """Map generated line number -> enclosing `fn name` (nearest preceding fn keyword
    at impl/module level; crude but adequate for reporting)."""
    marks = []
    for n, ln in enumerate(text.split("\n"), 1):
        m = re.match(r"\s*(pub(\([^)]*\))?\s+)?(open\s+|closed\s+|uninterp\s+|broadcast\s+|axiom\s+)*(proof\s+|spec\s+|exec\s+)?fn\s+([A-Za-z0-9_]+)", ln)
        if m:
            marks.append((n, m.group(5)))
    return marks


def _enclosing(marks, line):
    name = None
    for (n, f) in marks:
        if n <= line:
            name = f
        else:
            break
    return name


def parse_errors(stderr, gen_text, gen_path):
    """Split verus' human-readable diagnostics into error blocks."""
    lines = gen_text.split("\n")
    marks = _fn_markers(gen_text)
    blocks = re.split(r"(?m)^(?=error|warning|note: function body check)", stderr)
    out = []
    for b in blocks:
        if not b.startswith("error"):
            continue
        head = b.split("\n", 1)[0]
        if head.startswith("error: aborting due to"):
            continue
        msg = head[len("error"):].lstrip(":[] ").strip()
        # cited lines of the generated file
        cited = []
        base = os.path.basename(gen_path)
        for m in re.finditer(r"-->\s*(\S+?):(\d+):(\d+)", b):
            if os.path.basename(m.group(1)) == base:
                cited.append(int(m.group(2)))
        for m in re.finditer(r"(?m)^\s*(\d+)\s*\|", b):
            cited.append(int(m.group(1)))
        tags = set()
        for c in cited:
            if 1 <= c <= len(lines):
                tags.update(re.findall(r"\[(C\d{2,3})\]", lines[c - 1]))
        # the function in which the failing obligation arises: the *last* cited
        # primary location that lies inside a body; fall back to first
        fn = None
        prim = [int(m.group(2)) for m in re.finditer(r"-->\s*(\S+?):(\d+):(\d+)", b)
                if os.path.basename(m.group(1)) == base]
        fn_first = _enclosing(marks, prim[0]) if prim else None
        # "at the end of the function body"/"at this exit"/call site lines appear as snippet lines
        site_lines = [int(m.group(1)) for m in re.finditer(r"(?m)^\s*(\d+)\s*\|.*\n.*\|\s*[-^|_]+.*(at the end of the function body|at this exit|at this loop|failed precondition|failed this postcondition)?", b)]
        kind = None
        for s in SEMANTIC:
            if s in msg:
                kind = s
                break
        out.append({
            "message": msg, "kind": kind, "lines": sorted(set(cited)), "tags": sorted(tags),
            "fn_first": fn_first,
            "fns": sorted({_enclosing(marks, c) for c in cited if _enclosing(marks, c)}),
            "text": b.strip()[:4000],
            "clause": lines[prim[0] - 1].strip() if prim and 1 <= prim[0] <= len(lines) else "",
        })
    return out


def run_unit(unit, repo, scratch, timeout=600, rlimit=None):
    r = UnitResult(unit)
    t0 = time.time()
    tpl = os.path.join(VERIF, "verus", "units", unit + ".rs.in")
    ex = Expander(repo, os.path.join(VERIF, "verus"))
    try:
        text = ex.expand_file(tpl)
    except ExtractError as e:
        r.status, r.reason = "undecided", "extract: %s" % e
        r.wall_s = time.time() - t0
        return r
    gen = os.path.join(scratch, unit + ".rs")
    with open(gen, "w") as f:
        f.write(text)
    r.generated = gen
    r.extract = ex.report
    r.trust = list(ex.trust)
    # mechanical scan for trust markers in the generated text
    for pat in ["assume(", "admit(", "external_body", "assume_specification", "axiom fn", "uninterp spec fn"]:
        n = len(re.findall(re.escape(pat), text))
        if n:
            r.trust.append("scan: %d x `%s` in generated unit %s" % (n, pat, unit))
    r.clauses = [ln.strip() for ln in text.split("\n") if re.search(r"\[(C\d{2,3})\]", ln)]
    cmd = ["verus", gen, "--output-json", "--time", "--multiple-errors", "20"]
    if rlimit:
        cmd += ["--rlimit", str(rlimit)]
    r.cmd = " ".join(cmd)
    try:
        p = subprocess.run(cmd, capture_output=True, text=True, timeout=timeout, cwd=scratch)
    except subprocess.TimeoutExpired:
        r.status, r.reason = "undecided", "verus timeout after %ds" % timeout
        r.wall_s = time.time() - t0
        return r
    r.stderr = p.stderr
    r.wall_s = time.time() - t0
    try:
        j = json.loads(p.stdout)
    except Exception:
        r.status, r.reason = "undecided", "verus produced no JSON (exit %s): %s" % (p.returncode, p.stderr[-2000:])
        return r
    vr = j.get("verification-results", {})
    if vr.get("encountered-vir-error") or ("verified" not in vr):
        r.status = "undecided"
        r.reason = "verus front-end error (unsupported construct or compile error): " + p.stderr[-3000:]
        return r
    for mod in j.get("times-ms", {}).get("smt", {}).get("smt-run-module-times", []):
        for fb in mod.get("function-breakdown", []):
            r.functions.append({"function": fb["function"], "success": fb["success"],
                                "time_ms": fb.get("time", 0), "mode": fb.get("mode:", "")})
    r.smt_ms = j.get("times-ms", {}).get("smt", {}).get("total", 0)
    errs = parse_errors(p.stderr, text, gen)
    # compile errors (error[E....]) => undecided
    for e in errs:
        if re.match(r"^E\d{4}", e["message"]) or e["message"].startswith("[E"):
            r.status, r.reason = "undecided", "rustc error in generated unit: " + e["text"][:1500]
            return r
    if not r.functions and re.search(r"^error", p.stderr, re.M):
        r.status, r.reason = "undecided", "rustc/verus error before verification in generated unit: " + p.stderr[-1500:]
        return r
    failed_fns = {f["function"].split("::")[-1] for f in r.functions if not f["success"]}
    declared_probes = set(re.findall(r"fn\s+(probe_[A-Za-z0-9_]+)", text))
    for pr in declared_probes:
        if pr in failed_fns:
            r.probes_ok.append(pr)
    missing_probe_failures = sorted(declared_probes - failed_fns)
    nonprobe_failed = sorted(failed_fns - declared_probes)
    filtered = []
    for e in errs:
        e["owner"] = e["fn_first"] or "?"
        if e["owner"] in declared_probes:
            continue  # a probe failing is the expected outcome
        filtered.append(e)
    if missing_probe_failures:
        r.status = "undecided"
        r.reason = "vacuity probe(s) verified although they must fail (contradictory preconditions?): %s" % missing_probe_failures
        return r
    if not nonprobe_failed and not filtered:
        if vr.get("verified", 0) <= 0:
            r.status, r.reason = "undecided", "zero functions verified"
        else:
            r.status = "ok"
        return r
    sem = [e for e in filtered if e["kind"]]
    if sem:
        r.status = "failed"
        r.failures = sem
        return r
    r.status = "undecided"
    r.reason = "verus reported non-semantic failure: " + "\n".join(e["message"] for e in filtered)[:2000] + \
               (" failed fns: %s" % nonprobe_failed)
    return r

"""Kani side: copy /repo's working tree to a scratch crate, inject the harness
modules (add-only, all behind cfg(kani)), run `cargo kani`, classify per harness."""
import difflib
import glob
import os
import re
import shutil
import subprocess
import time

VERIF = os.path.abspath(os.path.join(os.path.dirname(os.path.abspath(__file__)), ".."))
PROOFS = os.path.join(VERIF, "kani", "proofs")
TARGET = os.environ.get("VERIF_KANI_TARGET", os.path.join(VERIF, ".cache", "kani-target"))

BASE_ARGS = ["-Z", "unstable-options", "--ignore-global-asm",
             "-Z", "function-contracts", "-Z", "stubbing",
             "--output-format", "terse"]


class InjectError(Exception):
    pass


def proof_modules():
    mods = []
    for p in sorted(glob.glob(os.path.join(PROOFS, "*.rs"))):
        head = open(p).read(2000)
        m = re.search(r"^//@inject\s+(\S+)", head, re.M)
        if not m:
            continue
        mods.append((p, m.group(1)))
    return mods


def prepare(repo, scratch):
    """Copy the working tree and inject. Returns (crate_dir, diff_text)."""
    crate = os.path.join(scratch, "crate")
    if os.path.exists(crate):
        shutil.rmtree(crate)
    subprocess.run(["rsync", "-a", "--exclude", "target", "--exclude", ".git", "--exclude", "_seed",
                    repo.rstrip("/") + "/", crate + "/"], check=True)
    diffs = []
    per_file = {}
    for (p, rel) in proof_modules():
        per_file.setdefault(rel, []).append(p)
    for rel, ps in per_file.items():
        f = os.path.join(crate, rel)
        if not os.path.exists(f):
            raise InjectError("inject target %s missing" % rel)
        old = open(f).read()
        add = "\n"
        for p in ps:
            stem = os.path.splitext(os.path.basename(p))[0]
            add += '#[cfg(kani)]\n#[path = "%s"]\npub(crate) mod __verif_%s;\n' % (p, stem)
        new = old + add
        open(f, "w").write(new)
        diffs.append("".join(difflib.unified_diff(old.splitlines(True), new.splitlines(True), rel, rel + " (injected)", n=0)))
    lib = os.path.join(crate, "src", "lib.rs")
    old = open(lib).read()
    new = '#![cfg_attr(kani, recursion_limit = "512")]\n#![cfg_attr(kani, allow(unused_imports, dead_code, unused_variables))]\n' + old
    open(lib, "w").write(new)
    diffs.append("".join(difflib.unified_diff(old.splitlines(True), new.splitlines(True), "src/lib.rs", "src/lib.rs (injected)", n=0)))
    cfgdir = os.path.join(crate, ".cargo")
    os.makedirs(cfgdir, exist_ok=True)
    with open(os.path.join(cfgdir, "config.toml"), "a") as fh:
        fh.write("\n[net]\noffline = true\n")
    return crate, "\n".join(diffs)


class HarnessResult:
    def __init__(self, name):
        self.name = name
        self.status = "undecided"   # ok | failed | undecided
        self.reason = ""
        self.time_s = 0.0
        self.failed_checks = []     # [{desc, file, line, fn}]
        self.raw = ""


SEMANTIC_PAT = re.compile(
    r"assertion failed|attempt to (add|subtract|multiply|divide|shift|negate|calculate the remainder)|"
    r"overflow|index out of bounds|out of range|slice index|range end index|range start index|"
    r"dereference failure|unwrap\(\)|called `Option::unwrap|called `Result::unwrap|panicked|explicit panic|"
    r"byte index .* is not a char boundary|not a char boundary|expect|postcondition|precondition|division by zero|"
    r"misaligned|Attempt to compute|unreachable code|is_char_boundary|slice_error_fail|str_index|copy_from_slice|"
    r"source slice length|panic", re.I)
NONSEM_PAT = re.compile(r"unwinding assertion|is not currently supported by Kani|unsupported|recursion unwinding", re.I)


def _split_blocks(out):
    """Return list of (harness_fullname, text). Handles both the sequential format
    and the `-j N` format where lines are prefixed per thread and interleaved."""
    blocks = []
    if re.search(r"(?m)^Thread \d+: ", out):
        cur = {}      # thread -> harness
        pieces = re.split(r"(?m)^(Thread \d+): ", out)
        # pieces: [pre, 'Thread 2', text, 'Thread 5', text, ...]
        for i in range(1, len(pieces), 2):
            th, txt = pieces[i], pieces[i + 1]
            m = re.match(r"Checking harness (\S+?)\.\.\.", txt)
            if m:
                cur[th] = m.group(1)
                rest = txt[m.end():]
                if "VERIFICATION:-" in rest:
                    blocks.append((cur[th], rest))
            elif th in cur:
                blocks.append((cur[th], txt))
    else:
        parts = re.split(r"(?m)^Checking harness ", out)
        for part in parts[1:]:
            name = part.split("...", 1)[0].strip()
            blocks.append((name, part))
    return blocks


def parse_output(out, harnesses):
    res = {}
    for (name, part) in _split_blocks(out):
        short = name.split("::")[-1]
        hr = res.get(short) or HarnessResult(short)
        hr.raw = (hr.raw + part)[-6000:]
        m = re.search(r"Verification Time: ([0-9.]+)s", part)
        if m:
            hr.time_s = float(m.group(1))
        for fm in re.finditer(r"Failed Checks: ((?:(?!Failed Checks:).)*?)\n\s*File: \"([^\"]*)\", line (\d+), in (\S+)", part, re.S):
            hr.failed_checks.append({"desc": re.sub(r"\s+", " ", fm.group(1)).strip(), "file": fm.group(2), "line": int(fm.group(3)), "fn": fm.group(4)})
        if "VERIFICATION:- SUCCESSFUL" in part:
            hr.status = "ok"
            hr.reason = ""
        elif "VERIFICATION:- FAILED" in part:
            sem = [c for c in hr.failed_checks if not NONSEM_PAT.search(c["desc"])]
            nonsem = [c for c in hr.failed_checks if NONSEM_PAT.search(c["desc"])]
            if "run out of memory" in part or "CBMC failed" in part:
                hr.status = "undecided"
                hr.reason = "CBMC failed / out of memory"
            elif nonsem:
                # an insufficient bound / unsupported feature taints the run: other failures may be spurious
                hr.status = "undecided"
                hr.reason = "bound or tool limit: " + "; ".join(c["desc"] for c in nonsem)[:500]
            elif sem:
                hr.status = "failed"
                hr.reason = ""
            else:
                hr.status = "undecided"
                hr.reason = "FAILED without a parsed failing check (CBMC error?)"
        elif hr.status != "ok":
            hr.status = "undecided"
            hr.reason = "no verdict (crash, timeout or out of memory)"
        res[short] = hr
    for h in harnesses:
        if h not in res:
            hr = HarnessResult(h)
            hr.reason = "harness not run (build error, timeout or not found)"
            res[h] = hr
    return res


def run(crate, harnesses, timeout=1800, jobs=8, extra=None, log=None, mem_gb=None):
    """Run the given harness names (unique fn names) in one cargo-kani invocation."""
    env = dict(os.environ)
    env["CARGO_NET_OFFLINE"] = "true"
    env["CARGO_TARGET_DIR"] = TARGET
    cmd = ["cargo", "kani"] + BASE_ARGS + ["-j", str(jobs)]
    for h in harnesses:
        cmd += ["--harness", h]
    if extra:
        cmd += extra
    t0 = time.time()
    pre = None
    if mem_gb:
        lim = int(mem_gb * 1024 * 1024)
        shell = "ulimit -v %d; exec " % lim + " ".join("'%s'" % c for c in cmd)
        full = ["bash", "-c", shell]
    else:
        full = cmd
    import signal
    import fcntl
    # one cargo-kani at a time per target directory: two concurrent checks of DIFFERENT trees (seed matrix, a user
    # running two properties side by side) would otherwise mix their goto binaries in the shared target directory
    # (observed: a string harness "failing" on a tree whose strings were untouched). The wait is not charged to the timeout.
    os.makedirs(TARGET, exist_ok=True)
    lock_fh = open(TARGET + ".lock", "w")
    fcntl.flock(lock_fh, fcntl.LOCK_EX)
    t0 = time.time()
    proc = subprocess.Popen(full, cwd=crate, env=env, stdout=subprocess.PIPE, stderr=subprocess.STDOUT,
                            text=True, start_new_session=True)
    try:
        out, _ = proc.communicate(timeout=timeout)
        rc = proc.returncode
    except subprocess.TimeoutExpired:
        try:
            os.killpg(proc.pid, signal.SIGKILL)
        except ProcessLookupError:
            pass
        out, _ = proc.communicate()
        out = (out or "") + "\n[verif] cargo kani timed out after %ds\n" % timeout
        rc = -9
    wall = time.time() - t0
    try:
        fcntl.flock(lock_fh, fcntl.LOCK_UN)
        lock_fh.close()
    except Exception:
        pass
    if log:
        with open(log, "w") as fh:
            fh.write(" ".join(cmd) + "\n" + out)
    res = parse_output(out, harnesses)
    build_failed = bool(re.search(r"error(\[E\d+\])?: ", out)) and "Checking harness" not in out
    if build_failed:
        for h in res.values():
            h.status = "undecided"
            m = re.search(r"(error(\[E\d+\])?: [^\n]*\n(?:[^\n]*\n){0,12})", out)
            h.reason = "scratch crate does not build under Kani: " + (m.group(1)[:1200] if m else "")
    return res, " ".join(cmd), wall, out

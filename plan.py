"""Which units decide which property, per tier. Read by bin/check and bin/mkmanifest.

verus : [{unit, functions (None = all), tags (clause tags that belong to this property), tiers, rlimit}]
kani  : [{harnesses: {name: {class: C|B, bound, fn}}, tiers, timeout, jobs, mem_gb}]
native: [{stem, filter, tests: {name: {bound, fn}}, tiers}]          in-crate tests (replay/in_crate/<stem>.rs)
native_files: [{name, tests: {name: {bound, fn}}, tiers}]            integration tests (replay/native/<name>.rs)

Classes: U  unbounded Verus proof of verbatim text
         C  complete Kani proof (loop-free / fixed-size harness over full-domain symbolic inputs; no bound)
         B  bounded Kani stand-in (bound stated; never counted as proved)
         B' bounded-exhaustive native contract check (enumeration of a stated finite domain on the real code)
"""

LEDGER = [
    "L1 Rust semantics as implemented by the Verus and Kani front ends; soundness of Verus/Z3 and Kani/CBMC/CaDiCaL; Kani run with --ignore-global-asm",
    "L2 prelude stand-ins (verus/prelude/*.rs) are faithful to the dependency types they replace: scroll traits, minidump-common PODs, error enums, bitflags permissions",
    "L3 machine integers are machine integers in both engines (overflow is an obligation); images are < 4 GiB where a contract says so (explicit precondition, not discharged for arbitrary targets)",
    "L4 target = x86_64 Linux, 64-bit usize; other cfg branches (x86, arm, aarch64, android, macOS, Windows) are neither compiled nor verified",
    "L5 kernel behaviour (ptrace, waitpid, process_vm_readv, /proc contents, signal delivery) appears only as assumed contracts on stubs; nothing about real schedules is decided",
]

Q = ("quick", "thorough")
T = ("thorough",)


def H(cls, fn, bound=""):
    d = {"class": cls, "fn": fn}
    if bound:
        d["bound"] = bound
    return d


STACK = {"unit": "stack", "rlimit": 60, "tiers": Q}
# the lookups that the unit `stack` takes by contract, proved from their bodies (listed wherever fill_thread_stack /
# get_stack_info carry a property, so that the evidence shows the assumption discharged in the same run)
def LOOKUPS(tag):
    return {"unit": "find_mapping", "functions": ["find_mapping", "may_be_stack"], "tags": [tag], "tiers": Q}

# thread_list_stream::write proved for any number of threads / mappings (loop heads desugared by the extractor, ledger 3c)
def SYSINFO(tag):
    return {"unit": "systeminfo", "functions": ["systeminfo_stream_write"], "tags": [tag], "tiers": Q}
def RAWFILE(tag):
    return {"unit": "raw_file", "functions": ["write_file"], "tags": [tag], "tiers": Q}
def TLIST(tag):
    return {"unit": "thread_list", "functions": ["write", "get_thread_info_by_index"], "tags": [tag], "rlimit": 100, "tiers": Q}

# ---------------------------------------------------------------------------
# shared Kani groups
# ---------------------------------------------------------------------------
K_SIZES = {
    "vk_size_u8": H("C", "scroll size/serialisation of u8"),
    "vk_size_u16": H("C", "scroll size/serialisation of u16"),
    "vk_size_u32": H("C", "scroll size/serialisation of u32"),
    "vk_size_dirent": H("C", "scroll size of MDRawDirectory == 12"),
    "vk_size_memdesc": H("C", "scroll size of MDMemoryDescriptor == 16"),
    "vk_size_header": H("C", "scroll size of MDRawHeader == 32"),
    "vk_size_thread": H("C", "scroll size of MDRawThread == 48"),
    "vk_size_threadname": H("C", "scroll size of MDRawThreadName == 12"),
    "vk_ser_dirent_layout": H("C", "MemoryWriter::<MDRawDirectory>::alloc_with_val little-endian field placement"),
    "vk_ser_memdesc_layout": H("C", "MemoryWriter::<MDMemoryDescriptor>::alloc_with_val little-endian field placement"),
}
K_ARRAYS = {
    "vk_alloc_from_array_memdesc_n2": H("B", "MemoryArrayWriter::alloc_from_array", "2 symbolic MDMemoryDescriptor after a 2-byte symbolic image"),
    "vk_alloc_from_iter_threadname_n2": H("B", "MemoryArrayWriter::alloc_from_iter", "2 symbolic MDRawThreadName after a 2-byte symbolic image"),
    "vk_alloc_empty_arrays_are_located_at_the_end": H("C", "MemoryArrayWriter::{alloc_from_iter, alloc_from_array, alloc_array, write_bytes} with zero elements after a 2-byte symbolic image"),
    "vk_string_supp": H("B", "write_string_to_location", "concrete string U+1D11E (surrogate pair) after a 2-byte symbolic image"),
    "vk_string_bmp": H("B", "write_string_to_location", "concrete string U+00E9 U+20AC (2- and 3-byte UTF-8)"),
}
K_THREAD_NAMES = {
    "vk_thread_names_both": H("B", "thread_names_stream::write", "2 threads, both named, symbolic tids"),
    "vk_thread_names_first_only": H("B", "thread_names_stream::write", "2 threads, first named"),
    "vk_thread_names_second_only": H("B", "thread_names_stream::write", "2 threads, second named (unnamed thread in front)"),
    "vk_thread_names_none": H("B", "thread_names_stream::write", "2 threads, none named"),
}
K_HAS_PTR = {
    "vk_has_ptr_len0": H("B", "MappingInfo::stack_has_pointer_to_mapping", "0-byte stack copy, symbolic sp_offset and [low, high)"),
    "vk_has_ptr_len7": H("B", "MappingInfo::stack_has_pointer_to_mapping", "7-byte symbolic stack copy"),
    "vk_has_ptr_len8": H("B", "MappingInfo::stack_has_pointer_to_mapping", "8-byte symbolic stack copy"),
    "vk_has_ptr_len17": H("B", "MappingInfo::stack_has_pointer_to_mapping", "17-byte symbolic stack copy"),
}
K_FIND = {
    "vk_may_be_stack_rule": H("C", "PtraceDumper::may_be_stack"),
    "vk_mmpermission_bits": H("C", "procfs_core MMPermissions::{bits, contains, intersects, |} (pins the Verus stand-in)"),
    "vk_find_mapping_2": H("B", "PtraceDumper::find_mapping", "exactly 2 symbolic mappings"),
    "vk_find_mapping_no_bias_2": H("B", "PtraceDumper::find_mapping_no_bias", "exactly 2 symbolic mappings"),
}
K_FILTERS = {
    "vk_is_interesting_rule": H("C", "MappingInfo::is_interesting"),
    "vk_contains_address_rule": H("C", "MappingInfo::contains_address"),
    "vk_mmpermission_bits": H("C", "procfs_core MMPermissions::{bits, contains, intersects, |} (pins the Verus stand-in)"),
    "vk_is_contained_in_n0": H("B", "MappingInfo::is_contained_in", "empty user list"),
    "vk_is_contained_in_n1": H("B", "MappingInfo::is_contained_in", "1 symbolic user mapping"),
    "vk_is_contained_in_n2": H("B", "MappingInfo::is_contained_in", "2 symbolic user mappings"),
}
K_REGS_THREAD = {
    "vk_thread_info_reads_the_thread_itself": H("C", "ThreadInfoX86::create_impl (every ptrace request names the thread)"),
    "vk_thread_fill_cpu_context_gprs": H("C", "ThreadInfoX86::fill_cpu_context (GPR, flags, segments, debug registers)"),
    "vk_thread_fill_cpu_context_fpstate": H("C", "ThreadInfoX86::fill_cpu_context (x87/SSE save area, byte for byte)"),
}
K_REGS_CRASH = {
    "vk_crash_fill_cpu_context_gprs": H("C", "CrashContext::fill_cpu_context (GPR, flags, cs/fs/gs), get_instruction_pointer, get_stack_pointer"),
    "vk_crash_fill_cpu_context_fpstate": H("C", "CrashContext::fill_cpu_context (x87/SSE save area, byte for byte)"),
}
K_PTRACE = {
    "vk_ptrace_read_len3": H("B", "MemReader::ptrace", "3-byte destination, symbolic src and readable interval"),
    "vk_ptrace_read_len8": H("B", "MemReader::ptrace", "8-byte destination"),
    "vk_ptrace_read_len11": H("B", "MemReader::ptrace", "11-byte destination (one word + 3-byte tail)"),
    "vk_ptrace_read_len17": H("B", "MemReader::ptrace", "17-byte destination (two words + 1-byte tail)"),
    "vk_read_to_vec_len_matches": H("B", "MemReader::read_to_vec", "11 bytes through the ptrace strategy"),
    "vk_read_strategy_selection": H("C", "MemReader::read (the first strategy that works is remembered; Unavailable is sticky; every success/failure combination of the strategies)"),
}
K_SUSPEND = {
    "vk_suspend_thread_protocol": H("B", "PtraceDumper::suspend_thread", "attach succeeds / EPERM / ESRCH; at most 3 wait results (SIGSTOP / stopped by ANY other signal 1..=31 / exited / EINTR / error)"),
    "vk_resume_threads_2": H("B", "PtraceDumper::resume_threads", "2 threads, called twice"),
    "vk_drop_resumes_and_continues": H("C", "Drop for PtraceDumper"),
    "vk_ptrace_detach_esrch_is_ok": H("C", "ptrace_detach (ESRCH)"),
    "vk_ptrace_detach_ok": H("C", "PtraceDumper::resume_thread"),
}
K_SUSPEND_THREADS = {"vk_suspend_threads_3": H("B", "PtraceDumper::suspend_threads", "3 threads, every attachable/unattachable pattern")}
K_TLS = {
    "vk_tls_two_threads_no_context": H("B", "thread_list_stream::write (per-thread loop)", "2 threads, no crash context, either one blamed"),
    "vk_tls_crash_context_thread": H("B", "thread_list_stream::write (crash-context branch, IP window)", "2 threads, 1 mapping of symbolic size, symbolic crash registers"),
}
K_TLS_CAP = {"vk_tls_cap_selection_22": H("B", "thread_list_stream::write (which threads are size-limited)", "22 threads, symbolic size limit")}
K_DUMP = {
    "vk_dump_reused_writer": H("C", "MinidumpWriter::dump (control flow, arbitrary stale writer state)"),
}
# one CBMC instance of this harness needs ~40 GB (50 M variables): it runs alone
G_DUMP = {"tiers": T, "jobs": 1, "timeout": 7200, "mem_gb": 52, "harnesses": K_DUMP}
K_GENERATE = {"vk_generate_dump_control_flow": H("C", "MinidumpWriter::generate_dump (control flow against stubbed section writers)")}
K_SANITIZE = {
    "vk_sanitize_len8_1map": H("B", "PtraceDumper::sanitize_stack_copy", "8-byte symbolic stack, 1 symbolic mapping <= 4 MiB, sp_offset 0..=17"),
    "vk_sanitize_len12_1map": H("B", "PtraceDumper::sanitize_stack_copy", "12-byte symbolic stack, 1 symbolic mapping <= 4 MiB, sp_offset 0..=21"),
}

N_PD_TOTAL = {"stem": "ptrace_dumper", "filter": "c02", "tiers": Q, "tests": {
    "c02_get_stack_info_top_of_address_space": H("B'", "PtraceDumper::get_stack_info", "4 stack pointers within 1 MiB of usize::MAX"),
    "c02_short_stack_copy_does_not_panic": H("B'", "MappingInfo::stack_has_pointer_to_mapping", "stack copies of 0..=7 bytes"),
}}
N_TLS = {"stem": "thread_list_stream", "filter": "", "tiers": Q, "tests": {
    "bprime_stack_region_for_every_sp_offset": H("B'", "fill_thread_stack (on this process's own memory)", "516 in-page sp offsets x {no limit, 2 KiB limit} + 8 sp positions below the mapping x {no limit, 2 KiB limit}"),
    "c06_no_plausible_mapping_within_guard_distance_gives_an_empty_stack": H("B'", "fill_thread_stack / get_stack_info", "sp inside a 3 MiB inaccessible region, with and without the limit"),
    "c06_readable_mapping_beyond_the_guard_distance_is_not_the_stack": H("B'", "PtraceDumper::get_stack_info (synthetic mapping lists)", "inaccessible reservation of 5/8/64 MiB directly followed by a readable mapping: 6 distances of sp below it (4 KiB .. 4 MiB) x 4 in-page offsets"),
    "c20_ip_at_end_of_principal_mapping_is_outside": H("B'", "fill_thread_stack", "ip == end of the principal mapping, all-zero stack"),
}}
N_TLS_C02 = {"stem": "thread_list_stream", "filter": "c02_", "tiers": Q, "tests": {
    "c02_crash_ip_window_at_the_edges_of_the_address_space": H("B'", "thread_list_stream::write (crash branch, synthetic mappings)", "4 crash instruction pointers less than 128 bytes from address 0 / usize::MAX inside a mapping that reaches it"),
}}
N_C09 = {"name": "c09_dest", "tiers": Q, "tests": {
    "bprime_destination_equals_image_for_every_short_history": H("B'", "DirSection (real std::io::Cursor)", "every sequence of <= 4 ops from 5 kinds x 3 start offsets x 3 prefills")}}
N_LIVE_PREFIX = {"name": "c10_live_prefix", "tiers": Q, "tests": {
    "every_prefix_of_a_real_dump_is_consistent": H("B'", "MinidumpWriter::dump on a live child into a destination that checks itself after every write; a persistent failure from every write index on, and a ONE-SHOT failure of every destination operation (write or seek)", "one child, pre-filled 32-byte file, start 9, every write index and every operation index")}}
N_LIVE_NOATTACH = {"name": "c10_live_prefix", "tiers": Q, "tests": {
    "dump_succeeds_when_no_thread_can_be_attached": H("B'", "MinidumpWriter::dump on a child whose threads are all already traced by another process", "one child")}}
N_C06_LIVE = {"name": "c06_limit", "tiers": Q, "tests": {
    "limited_stacks_contain_the_stack_pointer": H("B'", "MinidumpWriter::dump with a size limit on a live child with > 20 threads", "one child, 64 KiB limit"),
    "crash_context_thread_is_never_shortened": H("B'", "MinidumpWriter::dump with a size limit and a crash context for the thread at list position 25", "one 30-thread child")}}
N_C07_LIVE = {"name": "c07_ip_window", "tiers": Q, "tests": {
    "ip_window_is_clipped_to_the_mapping_that_contains_ip": H("B'", "MinidumpWriter::dump with crash contexts whose ip is inside / on the last byte / on the first byte of adjacent mappings / unmapped", "5 instruction pointers on one live child")}}
TWINS_STACK = {
    "fill_thread_stack": ["native:thread_list_stream::bprime_stack_region_for_every_sp_offset", "native:thread_list_stream::c20_ip_at_end_of_principal_mapping_is_outside"],
    "get_stack_info": ["native:thread_list_stream::c06_no_plausible_mapping_within_guard_distance_gives_an_empty_stack", "native:thread_list_stream::c06_readable_mapping_beyond_the_guard_distance_is_not_the_stack", "native:ptrace_dumper::c02_get_stack_info_top_of_address_space"],
    "app_memory_write": ["kani:vk_app_memory_two_regions"],
    "find_mapping": ["kani:vk_find_mapping_2"],
    "may_be_stack": ["kani:vk_may_be_stack_rule"],
    "stack_has_pointer_to_mapping": ["kani:vk_has_ptr_len8", "kani:vk_has_ptr_len17", "kani:vk_has_ptr_len7", "kani:vk_has_ptr_len0"],
    "find_mapping_no_bias": ["kani:vk_find_mapping_no_bias_2"],
    # thread_list_stream::write (unit thread_list): the live-target checks of the same sentences
    "write": ["native:c06_limit::crash_context_thread_is_never_shortened", "native:c07_ip_window::ip_window_is_clipped_to_the_mapping_that_contains_ip",
              "native:c05_blamed::crash_context_for_a_secondary_thread"],
}
TWINS_DIR = {
    "new": ["native:c09_dest::bprime_destination_equals_image_for_every_short_history"],
    "dump_dir_entry": ["native:c09_dest::bprime_destination_equals_image_for_every_short_history", "native:c10_prefix::every_prefix_is_consistent"],
    "write_to_file": ["native:c09_dest::bprime_destination_equals_image_for_every_short_history", "native:c10_prefix::every_prefix_is_consistent"],
}
N_SANITIZE = {"stem": "ptrace_dumper", "filter": "", "tiers": Q, "tests": {
    "bprime_sanitize_small_domain": H("B'", "PtraceDumper::sanitize_stack_copy", "17 boundary words ^2 x 3 tail lengths x 8 sp offsets x 2 mapping orders = 13 872 inputs"),
    "bprime_sanitize_mapping_geometry": H("B'", "PtraceDumper::sanitize_stack_copy (geometry of the could-hit pre-filter)", "10 positions of one executable mapping relative to a 2 MiB bucket edge and a 4 GiB period edge (incl. straddling, exactly on, larger than a period) x 36 boundary/alias words ^2 = 12 960 inputs"),
    "c12_small_negative_integer_survives": H("B'", "PtraceDumper::sanitize_stack_copy", "words -5, -4096, 4096, -4097, 4097"),
    "c12_region_shorter_than_offset": H("B'", "PtraceDumper::sanitize_stack_copy", "(len, sp_offset) in {(12,10), (8,9), (0,1), (16,40)}"),
}}

PLAN = {}

PLAN["C16"] = {
    "level": "proof",
    "explanation": "every function of src/mem_writer.rs that Verus can read is proved against the layout laws for all inputs; "
                   "the three enumerate()/encode_utf16 users and the per-type scroll sizes are Kani obligations",
    "verus": [{"unit": "mem_writer", "functions": None, "tags": ["C16"], "tiers": Q}],
    "kani": [
        {"tiers": Q, "jobs": 8, "timeout": 1500, "harnesses": dict(K_SIZES, **K_ARRAYS)},
        {"tiers": T, "jobs": 6, "timeout": 3000, "harnesses": {
            "vk_size_exception": H("C", "scroll size of MDRawExceptionStream == 168"),
            "vk_write_at_u32_len5": H("B", "Buffer::write_at (twin of the Verus proof)", "5-byte symbolic buffer, every offset 0..=5, u32"),
            "vk_alloc_from_array_u8_n5": H("B", "MemoryArrayWriter::<u8>::alloc_from_array", "5 symbolic bytes after a 2-byte image"),
            "vk_string_empty": H("B", "write_string_to_location", "empty string"),
            "vk_string_ascii": H("B", "write_string_to_location", "concrete string \"ab\""),
            "vk_string_mixed": H("B", "write_string_to_location", "concrete string 'a' U+1F600 U+FFFD (4 UTF-16 units)"),
        }},
    ],
    "twins": {"write_at": ["vk_write_at_u32_len5"]},
    "trusted": [
        "verus/prelude/vec_index.rs: semantics of `&mut vec[a..b]` (uninterpreted predicate + axiom for Range<usize>); its bounds check is an inserted assert",
        "alloc_from_iter / write_string_to_location are external_body in Verus (generic iterator + enumerate(), encode_utf16 unsupported); their contracts are checked by Kani at tier B only. alloc_from_array IS proved (any length): its `for (idx, val) in array.iter().enumerate()` head is desugared by the extractor into the index loop it abbreviates (ledger 3c), the Kani harnesses stay as twins",
    ],
    "samples": ["Buffer::write_at ensures: len' == max(len, off+size); bytes outside [off, off+size) unchanged; Ok => bytes == ser(val)",
                "MemoryArrayWriter::set_value_at requires index < array_size; ensures patched(old, new, pos + size*index, ser(val))",
                "MemoryArrayWriter::location_of_index ensures rva == pos + size*idx (no u32 overflow)"],
}

PLAN["C09"] = {
    "level": "proof",
    "explanation": "DirSection::{new, dump_dir_entry, write_to_file} proved verbatim against the destination invariant "
                   "(flushed prefix == image, frame outside [start, start+|image|)) for every start offset, pre-existing content and image, "
                   "generic in the Write+Seek destination (std::io semantics assumed as in verus/prelude/std_io.rs)",
    "verus": [{"unit": "dir_section", "functions": ["new", "position", "dump_dir_entry", "write_to_file"], "tags": ["C09"], "tiers": Q}],
    "kani": [],
    "native_files": [N_C09, N_LIVE_PREFIX],
    "twins": TWINS_DIR,
    "trusted": ["verus/prelude/std_io.rs: model of std::io::{Write,Seek} on a seekable byte sink (cross-checked against std::io::Cursor by the native twin)",
                "callers keep the invariant between calls (the image only grows, or is patched beyond the flushed prefix): generate_dump itself is outside Verus's reach"],
    "samples": ["write_to_file ensures Ok => inv && last == |image|; always frame(old dest, new dest, start, |image|)",
                "new ensures start == destination position on entry, destination contents untouched"],
}

PLAN["C10"] = {
    "level": "proof",
    "explanation": "a directory entry may reach the destination only after every byte of the image built so far has been flushed "
                   "(precondition of dump_dir_entry, obligation of its caller write_to_file); slots are written once in increasing order; "
                   "flushed bytes never change except directory slots (C09 contracts); generate_dump emits entries only through write_to_file (Kani, thorough)",
    "verus": [{"unit": "dir_section", "functions": ["new", "dump_dir_entry", "write_to_file"], "tags": ["C10"], "tiers": Q}],
    "kani": [{"tiers": T, "jobs": 2, "timeout": 5400, "mem_gb": 24, "harnesses": K_GENERATE}],
    "twins": TWINS_DIR,
    "native_files": [{"name": "c10_prefix", "tiers": Q, "tests": {
        "every_prefix_is_consistent": H("B'", "DirSection (real std::io::Cursor destination, snapshot after every write)", "start offsets 0 and 7, 2 streams of 40 bytes")}}, N_LIVE_PREFIX],
    "trusted": ["verus/prelude/std_io.rs: model of std::io::{Write,Seek}; a crash inside one write_all call is outside the statement",
                "that a stream's entry references only bytes below the image length at emission time is C01(b)"],
    "samples": ["dump_dir_entry requires last_position_written_to_file == |image|  [C10]"],
}

PLAN["C06"] = {
    "level": "proof",
    "explanation": "get_stack_info and fill_thread_stack proved verbatim: a captured stack starts on the page of the stack pointer "
                   "(or in the first plausible stack mapping above it), extends to the end of that mapping without a limit, is at most the "
                   "limit with one, and contains the stack pointer whenever the stack pointer lies in a readable stack-like mapping; "
                   "which threads are limited is proved on thread_list_stream::write for any number of threads (unit thread_list: only list positions >= 20 and never "
                   "the crash-context thread get the 2 KiB limit, every stack is captured for that thread's own stack pointer), and re-checked by a bounded Kani harness (thorough) and a live child",
    "verus": [dict(STACK, functions=["get_stack_info", "fill_thread_stack", "contains_address", "end_address"], tags=["C06"]),
              {"unit": "find_mapping", "functions": ["find_mapping", "may_be_stack"], "tags": ["C06"], "tiers": Q}, TLIST("C06")],
    "kani": [{"tiers": Q, "jobs": 4, "timeout": 900, "harnesses": K_FIND},
             {"tiers": T, "jobs": 3, "timeout": 3600, "mem_gb": 24, "harnesses": dict(K_TLS_CAP, **K_TLS)}],
    "native": [N_TLS],
    "native_files": [N_C06_LIVE],
    "twins": TWINS_STACK,
    "trusted": ["copy_from_process satisfies copy_ok (C17 decides it for the ptrace strategy; assumed for process_vm_readv and /proc/pid/mem)",
                "find_mapping's contract is assumed in the unit `stack` and proved, for lists of any length, in the unit `find_mapping` relative to an assumed contract of core::slice::Iter::find (first match); may_be_stack likewise (assumed in `stack`, proved in `find_mapping` against a stand-in of the bitflags type that Kani pins on the real type)"],
    "samples": ["get_stack_info ensures: is_first(k, page(sp)) && stack_like(maps[k]) ==> Ok && v == page(sp) && v+len == end(maps[k])",
                "fill_thread_stack ensures: sp in a readable stack-like mapping && included ==> start <= sp < start+len  [C06]"],
}

PLAN["C07"] = {
    "level": "proof",
    "explanation": "fill_thread_stack pushes exactly the non-empty stack descriptor whose bytes equal target memory (reader contract); "
                   "memory_list_stream::write serialises the recorded blocks verbatim, in order, with the count the size implies; "
                   "app_memory::write proved verbatim for any number of requests: one block per request, in order, each naming bytes appended by the call that equal target memory (reader contract); "
                   "thread_list_stream::write proved for any number of threads and mappings: every non-empty stack is listed and the window around the crash "
                   "instruction pointer is [max(start, ip-128), min(end, ip+128)) of the FIRST mapping containing ip, holding the target's bytes (reader contract); "
                   "the window is also a bounded Kani obligation (thorough) and a native check on a live child",
    "verus": [dict(STACK, functions=["fill_thread_stack", "memory_list_stream_write"], tags=["C07"]),
              {"unit": "app_memory", "functions": ["app_memory_write"], "tags": ["C07"], "tiers": Q}, LOOKUPS("C07"), TLIST("C07")],
    "kani": [{"tiers": Q, "jobs": 2, "timeout": 900, "harnesses": {
                 "vk_app_memory_two_regions": H("B", "app_memory::write", "2 requests, symbolic addresses, lengths 1..=3")}},
             {"tiers": T, "jobs": 2, "timeout": 3600, "mem_gb": 24, "harnesses": {"vk_tls_crash_context_thread": K_TLS["vk_tls_crash_context_thread"]}}],
    "native": [N_TLS],
    "native_files": [N_C07_LIVE],
    "twins": TWINS_STACK,
    "trusted": ["copy_from_process satisfies copy_ok (see C17)",
                "alloc_from_array: proved for any array length in the unit mem_writer (loop head desugared, ledger 3c)"],
    "samples": ["memory_list_stream::write ensures: size == 4 + 16*n; element i == ser(memory_blocks[i])"],
}

PLAN["C20"] = {
    "level": "proof",
    "explanation": "fill_thread_stack keeps a stack under skip-unreferenced iff the instruction pointer lies in [low, high) of the principal mapping "
                   "or the copied bytes hold an aligned pointer into it; crash_thread_references_principal_mapping uses the same half-open range; "
                   "the stack scanner itself is proved against has_ptr for stack copies of any length (unit stack_scan, byteorder stand-in) and cross-checked by Kani on the real byteorder code at stated lengths; dump() reports PrincipalMappingNotReferenced (thorough)",
    "verus": [dict(STACK, functions=["fill_thread_stack", "crash_thread_references_principal_mapping"], tags=["C20"]),
              {"unit": "find_mapping", "functions": ["find_mapping_no_bias", "find_mapping", "may_be_stack"], "tags": ["C20"], "tiers": Q},
              {"unit": "stack_scan", "functions": ["stack_has_pointer_to_mapping"], "tags": ["C20"], "tiers": Q},
              {"unit": "dump", "functions": ["dump"], "tags": ["C20"], "tiers": Q}],
    "kani": [{"tiers": Q, "jobs": 4, "timeout": 900, "harnesses": K_HAS_PTR},
             {"tiers": T, "jobs": 1, "timeout": 1800, "mem_gb": 24, "harnesses": {"vk_has_ptr_len24": H("B", "MappingInfo::stack_has_pointer_to_mapping", "24-byte symbolic stack copy")}},
             G_DUMP],
    "native": [N_TLS],
    "twins": TWINS_STACK,
    "trusted": ["stack_has_pointer_to_mapping's contract (has_ptr) is assumed in the unit `stack` and proved in the unit `stack_scan` relative to a stand-in of byteorder's read_u64::<NativeEndian> on &[u8] (little-endian word of the first 8 bytes, Err when shorter); Kani runs the real byteorder code at stated lengths"],
    "samples": ["fill_thread_stack ensures: skip && principal is Some && included ==> ip_in(pm, ip) || exists bytes. copy_ok(..) && has_ptr(bytes, ..)  [C20]"],
}

PLAN["C05"] = {
    "level": "proof",
    "explanation": "exception_stream::write proved (Verus) to emit the supplied signal number/code/address, the blamed thread id and the remembered "
                   "context location; CrashContext::fill_cpu_context proved (Kani, complete) to copy every register; that the blamed thread's "
                   "list entry uses the crash context's registers and that the remembered location is that entry's context blob is proved on "
                   "thread_list_stream::write for any number of threads (unit thread_list) and re-checked by a bounded Kani harness (thorough)",
    "verus": [dict(STACK, functions=["exception_stream_write"], tags=["C05"]), TLIST("C05")],
    "kani": [{"tiers": Q, "jobs": 2, "timeout": 1200, "harnesses": K_REGS_CRASH},
             {"tiers": T, "jobs": 2, "timeout": 3600, "mem_gb": 24, "harnesses": K_TLS}],
    "native_files": [{"name": "c05_blamed", "tiers": Q, "tests": {
        "crash_context_for_a_secondary_thread": H("B'", "MinidumpWriter::dump on a live 3-thread child, crash context for a non-main thread; and without a crash context", "one child, marker registers")}}],
    "trusted": ["ds/es/ss do not exist in a ucontext: stated, not claimed", "stand-in for crash_context::CrashContext's siginfo fields in the Verus prelude"],
    "samples": ["exception_stream::write ensures exists e. image' == image + ser(e) && exc_matches(e, config)  [C05]"],
}

PLAN["C04"] = {
    "level": "proof",
    "explanation": "ThreadInfoX86::fill_cpu_context proved (Kani, complete) for all register contents; suspend_threads keeps exactly the attachable "
                   "threads in order (bounded); thread_list_stream::write proved (unit thread_list) for ANY number of threads: exactly one record per retained thread, in order, "
                   "with that thread's id and a context blob holding the registers ptrace reports for that very thread (also bounded Kani, thorough); dump()/generate_dump() never read the target after resuming it (complete relative to stubs, thorough)",
    "verus": [{"unit": "dump", "functions": ["dump"], "tags": ["C04"], "tiers": Q}, TLIST("C04")],
    "kani": [{"tiers": Q, "jobs": 3, "timeout": 1200, "harnesses": dict(K_REGS_THREAD, **K_SUSPEND_THREADS)},
             {"tiers": T, "jobs": 3, "timeout": 5400, "mem_gb": 20, "harnesses": dict(K_TLS, **K_GENERATE)},
             G_DUMP],
    "native": [{"stem": "ptrace_dumper", "filter": "bprime_enumerate", "tiers": Q, "tests": {
        "bprime_enumerate_threads_of_this_process": H("B'", "PtraceDumper::enumerate_threads (this process as the target)", "10 helper threads (two with names that are not UTF-8) + the runner's own, compared with /proc/self/task")}}],
    "native_files": [N_LIVE_NOATTACH],
    "trusted": ["that a ptrace-stopped thread does not run, and what /proc/<pid>/task lists, are the kernel's contract (L5)"],
    "samples": ["vk_thread_fill_cpu_context_gprs: out.rax == regs.rax ... out.cs == regs.cs as u16, dr0..dr7, rip"],
}

PLAN["C03"] = {
    "level": "proof",
    "explanation": "the attach/wait/re-inject/detach protocol of suspend_thread, resume_threads (idempotent, each thread detached once) and "
                   "Drop for PtraceDumper (always resumes and sends SIGCONT) are checked against stubbed ptrace; every return path of dump() drops the "
                   "dumper (thorough). Signal delivery itself is the kernel's side and is not decided",
    "verus": [],
    "kani": [{"tiers": Q, "jobs": 5, "timeout": 900, "harnesses": K_SUSPEND},
             {"tiers": T, "jobs": 1, "timeout": 5400, "mem_gb": 24, "harnesses": K_GENERATE},
             G_DUMP],
    "native_files": [{"name": "c03_error_paths", "tiers": Q, "tests": {
        "target_runs_again_after_every_return_path": H("B'", "MinidumpWriter::dump on a live 4-thread child; afterwards no thread is traced or stopped",
            "5 option sets (incl. 1 ms stop timeout), an unreadable app-memory region, an I/O error at every destination write index")}}],
    "trusted": ["L5: 'delivered exactly once', group-stop vs tracing-stop and real interleavings are kernel behaviour; only the writer's side of the protocol is decided"],
    "samples": ["vk_suspend_thread_protocol: every non-SIGSTOP stop signal seen while waiting is passed to ptrace::cont exactly once, in order"],
}

PLAN["C19"] = {
    "level": "proof",
    "explanation": "dump() proved verbatim (Verus): for EVERY incoming writer state it hands generate_dump the per-request state of a fresh writer with the same configuration "
                   "(no recorded memory regions, no crashing-thread context, the principal mapping resolved in this request or none) and never changes the configuration; "
                   "given that, memory_list_stream::write emits exactly the blocks of this dump and exception_stream::write only a context set in this dump (Verus); "
                   "the same entry obligation is checked on the real callees' signatures by a Kani harness (thorough) and on live targets natively",
    "verus": [dict(STACK, functions=["memory_list_stream_write", "exception_stream_write"], tags=["C19"]),
              {"unit": "dump", "functions": ["dump", "new", "set_minidump_size_limit", "set_user_mapping_list", "set_principal_mapping_address", "set_app_memory",
                                              "set_crash_context", "skip_stacks_if_mapping_unreferenced", "sanitize_stack", "stop_timeout", "set_direct_auxv_dump_info"],
               "tags": ["C19"], "tiers": Q}, TLIST("C19")],
    "twins": {"dump": ["native:c19_reuse::second_dump_of_a_reused_writer_equals_a_fresh_one", "native:c19_reuse::reused_writer_after_failed_requests",
                       "native:c19_reuse::reused_writer_with_unresolvable_principal_address", "native:c19_reuse::reused_writer_with_another_blamed_thread"]},
    "kani": [G_DUMP],
    "native_files": [{"name": "c19_reuse", "tiers": Q, "tests": {
        "second_dump_of_a_reused_writer_equals_a_fresh_one": H("B'", "MinidumpWriter::dump x2 on a live 3-thread child", "one reuse, idle target"),
        "reused_writer_with_another_blamed_thread": H("B'", "MinidumpWriter::dump x2, blamed thread changed in between", "4-thread child"),
        "reused_writer_with_unresolvable_principal_address": H("B'", "MinidumpWriter::dump x2, principal address changed to one that resolves to nothing", "3-thread child"),
        "reused_writer_after_failed_requests": H("B'", "MinidumpWriter::dump x2, first request aborted by a hard error", "unreadable app memory; I/O error at destination write 4, 6, 9")}}],
    "trusted": ["macOS writer not touched (L4)",
                "unit dump: everything dump() calls is taken by contract (stand-ins for ErrorList / WriterError / AuxvDumpInfo / PtraceDumper::new_report_soft_errors, suspend_threads and late_init keep the mapping list); generate_dump's frame (configuration unchanged) is assumed there",
                "writer_inv (a resolved principal mapping implies a configured address) is a precondition: the fields are pub, a caller that assigns principal_mapping directly is outside the statement"],
    "samples": ["generate_dump requires fresh_request_state(*old(self), *old(dumper))  [C19]  (obligation of dump())",
                "stub of generate_dump asserts: memory_blocks.is_empty() && crashing_thread_context is None  [C19]"],
}

PLAN["C15"] = {
    "level": "model_checking",
    "explanation": "thread_names_stream::write checked by Kani for every named/unnamed pattern of 2 threads with symbolic tids: one entry per named "
                   "thread, in order, pairing its id with its own name blob; names of every UTF-8 / UTF-16 width through the real string writer by native enumeration (584 lists)",
    "verus": [],
    "kani": [{"tiers": Q, "jobs": 4, "timeout": 1200, "harnesses": K_THREAD_NAMES}],
    "native": [{"stem": "thread_names_stream", "filter": "", "tiers": Q, "tests": {
        "c15_unnamed_thread_before_named_thread": H("B'", "thread_names_stream::write", "threads [unnamed 11, named 22 \"bc\"]"),
        "bprime_thread_names_of_every_short_list": H("B'", "thread_names_stream::write (with the real write_string_to_location)", "every list of 1..=3 threads over {unnamed} + 7 names (every UTF-8 width, 1 and 2 UTF-16 units per character, empty): 584 lists")}},
               {"stem": "ptrace_dumper", "filter": "bprime_enumerate", "tiers": Q, "tests": {
        "bprime_enumerate_threads_of_this_process": H("B'", "PtraceDumper::enumerate_threads (names as the kernel reports them)", "10 thread names: length 0..15, leading/inner/trailing whitespace, non-ASCII, two that are not UTF-8 placed in front of readable ones (their threads are unnamed, the later names intact)")}}],
    "trusted": ["names in the Kani harnesses are concrete (strings are a cost cliff for CBMC)",
                "Verus cannot read the function (filter().count(), enumerate())"],
    "samples": ["vk_thread_names_second_only: header == 1, entry 0 == (tid1, rva of \"bc\")"],
}

PLAN["C17"] = {
    "level": "model_checking",
    "explanation": "MemReader::ptrace against a stubbed PEEKDATA (a word read succeeds iff the whole word is readable): entirely readable ranges are "
                   "read exactly, otherwise an error or a true prefix; read_to_vec never exposes more than was read (Kani, bounded). All three strategies, read and read_to_vec, are checked natively against a forked child around the end of a mapping (bounded-exhaustive, 6144 reads)",
    "verus": [],
    "kani": [{"tiers": Q, "jobs": 5, "timeout": 900, "harnesses": K_PTRACE}],
    "native_files": [{"name": "c17_strategies", "tiers": Q, "tests": {
        "every_strategy_returns_true_bytes_or_a_strict_prefix": H("B'", "MemReader::{read, read_to_vec} with each of the three strategies on a forked, attached child",
            "3 strategies x 32 starts (every alignment mod 8; first page, last page, 32 and 8 bytes before the end) x 32 lengths (1..=24, around 1 and 2 pages) x 2 entry points = 6144 reads, inside / ending at / across the end of a 3-page region followed by a hole")}},
                     {"name": "c17_ptrace_tail", "tiers": T, "tests": {
        "ptrace_strategy_reads_ranges_ending_at_a_mapping_end": H("B'", "MemReader::for_ptrace on a forked, attached child", "lengths 1,3,7,8,9,11,17,31 ending at a mapping end")}}],
    "trusted": ["L5: semantics of PTRACE_PEEKDATA, process_vm_readv, pread on /proc/pid/mem"],
    "samples": ["vk_ptrace_read_len11: src + 11 <= HI && src >= LO ==> Ok(11) && dst == mem[src..src+11]"],
}

PLAN["C12"] = {
    "level": "model_checking",
    "explanation": "sanitize_stack_copy against the statement: bounded-exhaustive native enumeration of boundary words/offsets/mapping orders (quick), "
                   "Kani with fully symbolic 8- and 12-byte stacks and a symbolic mapping (thorough)",
    "verus": [{"unit": "find_mapping", "functions": ["find_mapping_no_bias"], "tags": ["C12"], "tiers": Q},
              dict(STACK, functions=["fill_thread_stack"], tags=["C12"])],
    "kani": [{"tiers": T, "jobs": 2, "timeout": 5400, "mem_gb": 24, "harnesses": K_SANITIZE}],
    "native": [N_SANITIZE],
    "twins": TWINS_STACK,
    "trusted": ["Verus cannot read sanitize_stack_copy (chunks_exact_mut, vec! table); of its callees only find_mapping_no_bias is proved; that fill_thread_stack applies it to the copied stack with the thread's stack pointer and offset whenever sanitising is configured IS proved (its result is an uninterpreted function there)"],
    "samples": ["qualifies(w) <=> |w as isize| <= 4096 || w in stack mapping || w in first mapping containing it and that one is executable"],
}

PLAN["C13"] = {
    "level": "model_checking",
    "explanation": "MappingInfo::aggregate (through procfs-core's real parser) checked on every memory map of up to 3 lines over an 80-element per-line "
                   "domain and every vDSO choice (2 067 360 maps) against ten reference predicates derived from the statement and from what the other contracts assume of a derived mapping (order, ownership, hull, merge rules, vDSO name, path without the deleted marker, kernel-reported range, permission union, offset, must-merge)",
    "verus": [],
    "kani": [{"tiers": Q, "jobs": 2, "timeout": 1500, "harnesses": {
        "vk_aggregate_one_line_path": H("B", "MappingInfo::aggregate", "1 line, symbolic addresses/permissions/offset/vDSO address, name /a")}}],
    "native": [{"stem": "maps_reader", "filter": "bprime_aggregate", "tiers": Q, "tests": {
        "bprime_aggregate_up_to_2_lines": H("B'", "MappingInfo::aggregate", "all maps of 1..=2 lines over the per-line domain x vDSO choices (19 360)"),
        "bprime_aggregate_up_to_3_lines": H("B'", "MappingInfo::aggregate", "all maps of 1..=3 lines (2 067 360)")}}],
    "trusted": ["Kani handles one line with symbolic numbers (77 s) but not two within 40 min, and Verus rejects the function: beyond one line the property is decided at tier B' only",
                "'between two parts of an executable file mapping' is read as 'between two parts of the same file mapping' (the code does not test executability for the fold rule)"],
    "samples": ["P2: every line lies in exactly one derived mapping", "P4: a line joins a group only if it carries the group's name, or is the inaccessible gap after an executable file mapping, or the anonymous inaccessible page between two parts of the same file"],
}

PLAN["C14"] = {
    "level": "model_checking",
    "explanation": "BuildId / SoName::read_from_module on byte images: a well-formed ELF64 built field by field is identified (GNU note, XOR-fold of the first "
                   "executable section, DT_SONAME); every single-field and every pairwise corruption over boundary values (608 688 parses, incl. every field set to every other field's value +-1) returns without panicking",
    "verus": [],
    "kani": [],
    "native": [{"stem": "module_reader", "filter": "", "tiers": Q, "tests": {
        "c14_well_formed_image_is_identified": H("B'", "BuildId/SoName::read_from_module", "8 hand-built ELF64 images: with/without build-id note, data section before .text (allocated; executable but not allocated), ABI-tag note first, program headers only, sections only"),
        "bprime_memory_and_file_agree_for_loaded_modules": H("B'", "BuildId/SoName::read_from_module through ProcessReader (this process as the target) vs. from the file's bytes", "every ELF image loaded into the test process (test binary, libc, dynamic linker, libgcc ...) and the vDSO, whose dynamic section is not relocated"),
        "bprime_single_field_corruptions_never_panic": H("B'", "BuildId/SoName::read_from_module", "every field x (14 extremes + every other field's value and its neighbours), and all field pairs x 25 value pairs, with and without a note: 608 688 parses")}}],
    "trusted": ["agreement with an independent parser on installed files and memory-vs-file agreement need a second implementation and a live target: not decided",
                "goblin's parsing beyond the paths these images exercise"],
    "samples": ["field at offset 728 (DT_STRTAB) := u64::MAX must give Err, not 'attempt to add with overflow'"],
}

PLAN["C08"] = {
    "level": "model_checking",
    "explanation": "the module filters is_interesting, contains_address and is_contained_in (any user list length) proved verbatim (Verus) and "
                   "cross-checked by Kani (complete for the loop-free ones, user lists of 0..2 mappings for is_contained_in); the effective module name (SONAME replaces / is appended to the last path component) and entry-point-module-first by native "
                   "enumeration; build-id/SONAME content is C14",
    "verus": [{"unit": "maps_filter", "functions": ["is_interesting", "contains_address", "is_contained_in", "is_executable", "is_readable", "is_writable"], "tags": ["C08"], "tiers": Q}],
    "kani": [{"tiers": Q, "jobs": 6, "timeout": 900, "harnesses": K_FILTERS}],
    "twins": {"is_contained_in": ["kani:vk_is_contained_in_n1", "kani:vk_is_contained_in_n2"], "is_interesting": ["kani:vk_is_interesting_rule"],
              "contains_address": ["kani:vk_contains_address_rule"]},
    "native": [{"stem": "module_reader", "filter": "c14_well", "tiers": Q, "tests": {
        "c14_well_formed_image_is_identified": H("B'", "BuildId/SoName::read_from_module", "8 hand-built ELF64 images: with/without build-id note, data section before .text (allocated; executable but not allocated), ABI-tag note first, program headers only, sections only")}},
               {"stem": "maps_reader", "filter": "bprime_aggregate_up_to_2", "tiers": Q, "tests": {
        "bprime_aggregate_up_to_2_lines": H("B'", "MappingInfo::aggregate (module naming: the mapped path without the ' (deleted)' marker; extents)", "every map of <= 2 lines over the 80-element per-line domain x vDSO choices (19 360 maps)")}},
               {"stem": "maps_reader", "filter": "bprime_effective", "tiers": Q, "tests": {
        "bprime_effective_module_name": H("B'", "MappingInfo::get_mapping_effective_path_name_and_version", "8 paths x 4 SONAMEs x executable x offset (128)")}},
               {"stem": "mappings", "filter": "bprime_module", "tiers": Q, "tests": {
        "bprime_module_list_of_this_process": H("B'", "mappings::write + fill_raw_module (this process as the target)", "every module of the test process; per module 2 caller-supplied mappings (same extent, strictly containing)")}},
               {"stem": "ptrace_dumper", "filter": "bprime_entry", "tiers": Q, "tests": {
        "bprime_entry_point_mapping_is_first": H("B'", "PtraceDumper::enumerate_mappings (this process as the target)", "every file-backed derived mapping of the test process x first/last address as the entry point")}}],
    "trusted": ["that a module's debug record holds the build id an independent reader finds in the file, and merged extents of real ELF images, are not decided (C13/C14 cover aggregation and identification separately)",
                "version info derived from the .so.N suffix is only exercised for totality (C02), not compared with a reference"],
    "samples": ["is_interesting == (name.is_some() && (offset == 0 || executable) && size >= 4096)"],
}

PLAN["C11"] = {
    "level": "model_checking",
    "explanation": "systeminfo_stream::write proved verbatim (Verus): whatever reading the CPU information answers, control reaches the point where the record is stored, "
                   "and the list it was handed has then been appended with exactly that failure (nothing when nothing failed); "
                   "suspend_threads records one soft error per unattachable thread and keeps going (bounded); generate_dump keeps succeeding when any "
                   "best-effort writer fails, leaves an unused entry and records exactly one soft error per failed step (complete relative to stubs, thorough)",
    "verus": [{"unit": "dump", "functions": ["dump"], "tags": ["C11"], "tiers": Q}, SYSINFO("C11"), RAWFILE("C11")],
    "kani": [{"tiers": Q, "jobs": 2, "timeout": 900, "harnesses": dict(K_SUSPEND_THREADS, **{"vk_suspend_thread_protocol": K_SUSPEND["vk_suspend_thread_protocol"]})},
             {"tiers": T, "jobs": 2, "timeout": 5400, "mem_gb": 24, "harnesses": K_GENERATE}],
    "native": [{"stem": "minidump_writer", "filter": "bprime_soft", "tiers": Q, "tests": {
        "bprime_soft_error_stream_is_wellformed_json": H("B'", "write_soft_errors", "every subset of 6 representative soft errors (64)")}},
               {"stem": "systeminfo_stream", "filter": "c11", "tiers": Q, "tests": {
        "c11_cpu_information_failure_is_soft": H("B'", "systeminfo_stream::write with the CpuInfoFileOpen fail point", "one failure")}}],
    "native_files": [N_LIVE_NOATTACH],
    "trusted": ["serde_json / error-graph serialisation beyond the 64 enumerated lists",
                "PtraceDumper::init: the harness vk_init_best_effort_steps (kani/proofs/ptrace_dumper.rs) exhausts 30 GB in CBMC (error-list drop glue) and is not part of any tier: init's four best-effort steps are NOT decided"],
    "samples": ["vk_generate_dump_control_flow: SOFT_ERRORS_SEEN == FAILED_BEST_EFFORT && ZERO_ENTRIES >= FAILED_BEST_EFFORT"],
}

PLAN["C18"] = {
    "level": "model_checking",
    "explanation": "the memory-protection table and the 0-means-unset conversion of caller auxv values (Kani, complete); caller-supplied auxv values take "
                   "precedence over the kernel's for every subset of keys, the linker list of a fake target is reproduced exactly, and the raw /proc copies, "
                   "memory-info list and handle stream of a stopped child equal what /proc reports (native checks on concrete targets)",
    "verus": [SYSINFO("C18"), RAWFILE("C18")],
    "kani": [{"tiers": Q, "jobs": 2, "timeout": 600, "harnesses": {
        "vk_memory_protection_table": H("C", "memory_info_list_stream::get_memory_protection"),
        "vk_direct_auxv_from": H("C", "From<DirectAuxvDumpInfo> for AuxvDumpInfo")}}],
    "native": [{"stem": "auxv", "filter": "", "tiers": Q, "tests": {
        "bprime_direct_auxv_values_take_precedence": H("B'", "AuxvDumpInfo::try_filling_missing_info", "16 subsets of supplied keys x 4 keys")}},
               {"stem": "dso_debug", "filter": "c18", "tiers": Q, "tests": {
        "c18_linker_list_is_reproduced": H("B'", "dso_debug::write_dso_debug_stream", "one well-formed fake target: 2 program headers, DT_DEBUG, 2 link maps")}},
               {"stem": "systeminfo_stream", "filter": "c18", "tiers": Q, "tests": {
        "c18_system_information_names_this_machine": H("B'", "systeminfo_stream::write", "this machine's /proc/cpuinfo")}},
               {"stem": "minidump_writer", "filter": "bprime_os", "tiers": Q, "tests": {
        "bprime_os_information_streams_mirror_a_stopped_child": H("B'", "write_file, memory_info_list_stream::write, handle_data_stream::write",
            "one forked, SIGSTOPped child: 6 /proc files, every maps line, every open descriptor (incl. a non-UTF-8 file name and a pipe)")}}],
    "trusted": ["system information is compared with an independent parse of this machine's /proc/cpuinfo only",
                "the /proc comparisons are made on one concrete stopped child, not for every target"],
    "samples": ["get_memory_protection(rw-) == PAGE_READWRITE"],
}

PLAN["C01"] = {
    "level": "proof",
    "explanation": "builder laws (C16 unit), DirSection (C09 unit) and the per-stream contracts of fill_thread_stack, memory_list_stream::write and "
                   "exception_stream::write proved in Verus: every returned location starts where the image ended, has the size its count implies and the image only grows; "
                   "thread_names_stream::write and app_memory::write by Kani (bounded); exactly 18 entries, each through write_to_file (Kani, thorough)",
    "verus": [dict(STACK, functions=["fill_thread_stack", "memory_list_stream_write", "exception_stream_write"], tags=["C01"]),
              {"unit": "dir_section", "functions": ["new", "dump_dir_entry", "write_to_file"], "tags": ["C01"], "tiers": Q},
              {"unit": "app_memory", "functions": ["app_memory_write"], "tags": ["C01"], "tiers": Q}, LOOKUPS("C01"), TLIST("C01"), SYSINFO("C01"), RAWFILE("C01"),
              # "no two objects overlap ... every memory descriptor designates an object inside the image" needs the memory list
              # of a request to hold only regions recorded by THAT request: the fresh-request-state obligation of dump() ([C19])
              {"unit": "dump", "functions": ["dump"], "tags": ["C01", "C19"], "tiers": Q},
              {"unit": "mem_writer", "functions": None, "tags": ["C16"], "tiers": Q}],
    "kani": [{"tiers": Q, "jobs": 6, "timeout": 1500, "harnesses": dict(K_THREAD_NAMES, **dict(K_ARRAYS, **{"vk_app_memory_two_regions": H("B", "app_memory::write", "2 requests"),
                                                                                                              "vk_stream_types_distinct": H("C", "the 18 stream types generate_dump emits are pairwise distinct and non-zero")}))},
             {"tiers": T, "jobs": 3, "timeout": 5400, "mem_gb": 20, "harnesses": dict(K_GENERATE, **K_TLS)}],
    "trusted": ["mappings::write / fill_raw_module, handle_data_stream, memory_info_list_stream, systeminfo_stream, dso_debug bodies are not under contract (fs/procfs iterators): only the array/size arithmetic they share with the builder is",
                "macOS writer not touched (L4)"],
    "samples": ["memory_list_stream::write ensures d.location == {rva: |old image|, data_size: 4 + 16 n}",
                "g_write_to_file asserts ENTRIES < 18 before each entry; on Ok ENTRIES == 18 == header.stream_count"],
}

PLAN["C02"] = {
    "level": "proof",
    "explanation": "panic-freedom and termination obligations (overflow, slice bounds, decreases) of the Verus-readable functions on the dump path are proved "
                   "for all inputs; the stack scanner, mapping lookup and the /dev guard by Kani; SoVersion::parse, the short-copy/top-of-address-space inputs and the "
                   "/dev FIFO case by native enumeration; ELF parsing totality by the corruption enumeration shared with C14; sanitize totality is C12",
    "verus": [dict(STACK, functions=["get_stack_info", "fill_thread_stack", "crash_thread_references_principal_mapping", "memory_list_stream_write",
                                     "exception_stream_write", "contains_address", "end_address"], tags=["C02"]),
              {"unit": "dir_section", "functions": ["new", "dump_dir_entry", "write_to_file"], "tags": ["C02"], "tiers": Q},
              {"unit": "app_memory", "functions": ["app_memory_write"], "tags": ["C02"], "tiers": Q},
              {"unit": "maps_filter", "functions": ["is_interesting", "is_contained_in"], "tags": ["C02"], "tiers": Q},
              {"unit": "find_mapping", "functions": ["find_mapping", "find_mapping_no_bias", "may_be_stack"], "tags": ["C02"], "tiers": Q},
              {"unit": "stack_scan", "functions": ["stack_has_pointer_to_mapping"], "tags": ["C02"], "tiers": Q},
              {"unit": "mem_writer", "functions": None, "tags": ["C02"], "tiers": Q}, TLIST("C02"), SYSINFO("C02")],
    "kani": [{"tiers": Q, "jobs": 8, "timeout": 1200, "harnesses": dict(K_HAS_PTR, **dict(K_FIND, **{"vk_safe_to_open_table": H("B", "MappingInfo::is_mapped_file_safe_to_open", "5 concrete names")}))}],
    "native": [N_PD_TOTAL, N_TLS_C02,
               {"stem": "maps_reader", "filter": "bprime_so_version", "tiers": Q, "tests": {
                   "bprime_so_version_parse_is_total": H("B'", "SoVersion::parse", "every name lib.so.<s>, s over 8 characters (2 non-ASCII), |s| <= 5: 37 449 names")}},
               {"stem": "module_reader", "filter": "bprime_single", "tiers": Q, "tests": {
                   "bprime_single_field_corruptions_never_panic": H("B'", "BuildId/SoName::read_from_module (never panics on any bytes where ELF structures are expected)", "every header / program-header / section-header / dynamic field of a hand-built ELF64 image x (14 extremes + every other field's value and its neighbours), and every pair of fields x 5 values: 608 688 parses")}},
               {"stem": "mappings", "filter": "", "tiers": Q, "tests": {
                   "c02_mapped_file_under_dev_is_not_opened": H("B'", "mappings::write", "one mapping named after a FIFO under /dev/shm")}},
               {"stem": "dso_debug", "filter": "bprime", "tiers": Q, "timeout": 600, "tests": {
                   "bprime_corrupt_linker_data_never_panics_or_hangs": H("B'", "dso_debug::write_dso_debug_stream (fake target in this process)", "29 corruptions of auxv values, program headers, dynamic section, r_debug and the link-map chain; 5 s bound per call")}}],
    "trusted": ["wall-clock behaviour of syscalls is not decided; 'bounded time' is loop termination of the listed functions",
                "get_ppid_and_tgid's line parser is file-backed: not covered"],
    "samples": ["get_stack_info: decreases usize::MAX - stack_pointer; no arithmetic overflow for any int_stack_pointer",
                "Buffer::write_at: inserted assert offset <= offset + to_write <= len (slice bounds)"],
}

# ---------------------------------------------------------------------------
# manifest text
# ---------------------------------------------------------------------------
TECHNIQUE = {
    "C01": "deductive verification (Verus per-stream contracts + builder/DirSection units) + Kani bounded/complete harnesses for what Verus cannot read",
    "C02": "deductive verification of panic-freedom/termination obligations (Verus) + Kani bounded harnesses + bounded-exhaustive native contract checks",
    "C03": "Kani harnesses of the attach/detach protocol against stubbed ptrace (contract stubs), complete control-flow harness of dump()",
    "C04": "deductive verification (Verus): thread_list_stream::write proved for any number of threads (one record per thread, own id, own context) + Kani complete proof of the register map + bounded/complete control-flow harnesses against contract stubs",
    "C05": "deductive verification (Verus) of exception_stream::write and of the crash-context branch of thread_list_stream::write (any thread count) + Kani complete proof of the crash-context register map",
    "C06": "deductive verification (Verus): postconditions of get_stack_info / fill_thread_stack / find_mapping / may_be_stack on verbatim text and of thread_list_stream::write (which threads are limited, for any thread count); Kani and live-target native twins",
    "C07": "deductive verification (Verus): postconditions of fill_thread_stack / thread_list_stream::write (stacks listed, IP window) / memory_list_stream::write / app_memory::write; Kani and a live-target native twin for the IP window",
    "C08": "deductive verification (Verus) of the module filter predicates + bounded-exhaustive native contract checks of naming and ordering",
    "C09": "deductive verification (Verus): DirSection representation invariant proved function by function against an assumed std::io model",
    "C10": "deductive verification (Verus): flush-before-entry precondition of dump_dir_entry discharged at its call site; Kani control-flow harness",
    "C11": "Kani harnesses against contract stubs (suspend_threads bounded, generate_dump control flow complete)",
    "C12": "bounded checking of the sanitizer's contract: native bounded-exhaustive enumeration + Kani symbolic harnesses",
    "C13": "bounded-exhaustive native check of aggregate's contract (reference predicates from the statement) on all maps of <= 3 lines",
    "C14": "bounded-exhaustive native check of ELF identification (well-formed images + all single/pairwise field corruptions)",
    "C15": "Kani bounded harnesses of thread_names_stream::write (every named/unnamed pattern of 2 threads) + bounded-exhaustive native enumeration of short thread lists",
    "C16": "deductive verification (Verus contracts on verbatim src/mem_writer.rs) + Kani harnesses for per-type serialisation facts and the three functions Verus cannot read",
    "C17": "Kani bounded harnesses of MemReader::ptrace against a contract stub of PEEKDATA + bounded-exhaustive native contract check of all three strategies",
    "C18": "Kani complete proofs of the decidable conjuncts + native enumeration of auxv precedence",
    "C19": "deductive verification (Verus): generate_dump's fresh-request precondition discharged by the verbatim dump() for every writer state, postconditions of the two consumers; Kani control-flow harness and native reuse histories",
    "C20": "deductive verification (Verus): biconditional postcondition of fill_thread_stack and crash_thread_references_principal_mapping, the stack scanner proved for any length; Kani cross-check of the scanner",
}
LEVEL_TEXT = {
    "C01": "unbounded proofs for the builder (incl. arrays of any length), the directory writer and five stream writers (thread list for any thread count, thread stacks, memory list, exception, app memory); bounded Kani checks for thread names, arrays and strings; complete control-flow proof (relative to contract stubs) that exactly the declared number of entries is emitted. Streams whose bodies read /proc are covered only through the builder primitives they call",
    "C02": "unbounded proof of overflow/bounds/termination obligations for the Verus-readable functions of the dump path (incl. the stack scanner, the mapping lookups, app memory, the module filters); bounded Kani and bounded-exhaustive native checks for the parsers Verus cannot read (ELF identification, SoVersion, dso_debug on a fake target)",
    "C03": "bounded/complete checks of the writer's side of the ptrace protocol against contract stubs; a native check that a live target runs again after every return path of dump(); the kernel's side (signal delivery, scheduling) is out of reach and not claimed",
    "C04": "unbounded proof that thread_list_stream::write emits exactly one record per retained thread, in order, with that thread's id and a context blob equal to the register map applied to what ptrace reports for that thread (relative to the loop-head desugaring and the callee contracts); complete proof (all register contents) of the register map; bounded checks of thread retention (suspend_threads, 3 threads) and of the attach protocol; complete control-flow proofs relative to stubs (thorough tier)",
    "C05": "unbounded proof of the exception record; unbounded proof (any thread count) that the blamed thread's list entry carries the crash context's registers and that the context location handed to the exception stream is that entry's blob; complete proof of the crash-context register map; live-target native check with a secondary blamed thread",
    "C06": "unbounded proof over all stack pointers, mapping lists and page sizes of the stack-capture postconditions (containment of SP, page start, extent, 2 KiB cap), relative to the reader contract; the first-plausible-mapping rule for stack pointers in a guard page; the lookups find_mapping / may_be_stack proved for mapping lists of any length; which threads are limited (only list positions >= 20, never the crash-context thread, 2 KiB exactly when the estimate exceeds the limit) proved on thread_list_stream::write for any thread count, with bounded Kani and live-target native twins",
    "C07": "unbounded proof that stack regions, application-requested regions (any number) and the serialised memory list are faithful, relative to the reader contract; unbounded proof (any thread and mapping count) that every non-empty stack is listed and that the IP window is [max(start, ip-128), min(end, ip+128)) of the first mapping containing ip with the target's bytes; bounded Kani and live-target native twins for the IP window",
    "C08": "unbounded proofs of the three module filters (user-mapping containment for any list length); module naming, SONAME substitution and entry-point-first by bounded-exhaustive native checks; build-id equality with an independent reader is not decided",
    "C09": "unbounded proof, for every start offset, pre-existing destination content, image and operation, that each DirSection operation preserves 'flushed prefix == image' and touches nothing outside [start, start+|image|), relative to the assumed Write/Seek semantics",
    "C10": "unbounded proof that no directory entry reaches the destination before the bytes it can reference (the obligation that failed on the pinned tree and was repaired); complete control-flow proof that generate_dump emits entries only through write_to_file (thorough)",
    "C11": "bounded check of suspend_threads, complete control-flow proof (relative to stubs) for the 11 best-effort steps of generate_dump (thorough); init and JSON well-formedness are not covered",
    "C12": "bounded: exhaustive native enumeration of 13 872 boundary inputs and of 12 960 inputs over the geometry of the pre-filter table (quick) and Kani over all 8/12-byte stacks with a symbolic mapping (thorough); not a proof for all stack lengths",
    "C13": "bounded: exhaustive over all maps of up to 3 lines of an 80-element per-line domain; not a proof for all map lengths",
    "C14": "bounded: eight hand-built images and 608 688 parses of corrupted variants (under a watchdog: a hang is a verdict); memory-vs-file agreement of build id and SONAME for every ELF image loaded into the test process and the vDSO; agreement with an independent parser on installed files is not decided",
    "C15": "bounded: every named/unnamed pattern of 2 threads with symbolic ids and concrete names (Kani); every list of <= 3 threads over 8 name shapes incl. non-BMP names (native)",
    "C16": "unbounded proof for every Buffer/MemoryWriter/MemoryArrayWriter function Verus can read (all inputs, all buffer states); complete Kani proofs of the per-type size facts; alloc_from_array proved for any array length (loop head desugared by the extractor, recorded in the evidence); bounded Kani checks (stated bounds) of alloc_from_iter/write_string_to_location",
    "C17": "bounded: destinations of 3, 8, 11, 17 bytes, every source alignment and every readable interval for the ptrace strategy (Kani); all three strategies on a live child around a mapping end, 6144 reads (native); strategy selection complete (Kani)",
    "C18": "unbounded proofs that write_file stores exactly the bytes its single read returned and that systeminfo_stream::write places the platform id and OS-version string; complete proofs of two pure conversions; bounded-exhaustive check of auxv precedence; equality with what the kernel reports is checked natively on a stopped child only",
    "C19": "unbounded proof on the verbatim text of dump() that, for every incoming writer state satisfying the writer invariant, generate_dump receives the per-request state of a fresh writer and the configuration is unchanged; the invariant itself is established by new() and kept by all nine configuration methods (proved verbatim), so the argument iterates over any API history; unbounded proofs that the two consumers emit only that state; the same obligation through the real callees by a complete Kani control-flow harness (thorough); native reuse histories incl. failed requests on live children",
    "C20": "unbounded proof of the keep/drop rule for stacks under skip-unreferenced and of the stack scanner itself (stack copies of any length, relative to a byteorder stand-in that Kani cross-checks at stated lengths)",
}
NOT_APPLICABLE = {}

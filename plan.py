"""Which units decide which property, per tier. Read by bin/check.

verus: [{unit, functions (None = all), tags (clause tags that belong to this property), tiers}]
kani : [{harnesses: {name: {class: C|B, bound, fn}}, tiers, timeout, jobs}]
Classes: U unbounded Verus proof of verbatim text; C complete Kani proof (no bound involved);
         B bounded Kani stand-in (bound stated; never counted as proved).
"""

LEDGER = [
    "L1 Rust semantics as implemented by the Verus and Kani front ends; soundness of Verus/Z3 and Kani/CBMC/CaDiCaL; Kani run with --ignore-global-asm",
    "L2 prelude stand-ins (verus/prelude/*.rs) are faithful to the dependency types they replace: scroll traits, minidump-common PODs, error enums",
    "L3 machine integers are machine integers in both engines (overflow is an obligation); images are < 4 GiB where a contract says so (explicit precondition, not discharged for arbitrary targets)",
    "L4 target = x86_64 Linux, 64-bit usize; other cfg branches are neither compiled nor verified",
]

Q = ("quick", "thorough")
T = ("thorough",)

MEMW_FNS = ["position", "reserve", "write", "write_at", "write_all", "deref", "alloc_with_val", "alloc", "set_value",
            "location", "write_bytes", "alloc_array", "set_value_at", "location_of_index"]

PLAN = {}

PLAN["C16"] = {
    "level": "proof",
    "explanation": "every function of src/mem_writer.rs that Verus can read is proved against the layout laws for all inputs; "
                   "the three enumerate()/encode_utf16 users and the per-type scroll sizes are Kani obligations",
    "verus": [{"unit": "mem_writer", "functions": None, "tags": ["C16"], "tiers": Q}],
    "kani": [
        {"tiers": Q, "jobs": 8, "timeout": 1500, "harnesses": {
            "vk_size_u8": {"class": "C", "fn": "scroll size/serialisation of u8"},
            "vk_size_u16": {"class": "C", "fn": "scroll size/serialisation of u16"},
            "vk_size_u32": {"class": "C", "fn": "scroll size/serialisation of u32"},
            "vk_size_dirent": {"class": "C", "fn": "scroll size of MDRawDirectory == 12"},
            "vk_size_memdesc": {"class": "C", "fn": "scroll size of MDMemoryDescriptor == 16"},
            "vk_size_header": {"class": "C", "fn": "scroll size of MDRawHeader == 32"},
            "vk_size_thread": {"class": "C", "fn": "scroll size of MDRawThread == 48"},
            "vk_size_threadname": {"class": "C", "fn": "scroll size of MDRawThreadName == 12"},
            "vk_ser_dirent_layout": {"class": "C", "fn": "MemoryWriter::<MDRawDirectory>::alloc_with_val little-endian field placement"},
            "vk_ser_memdesc_layout": {"class": "C", "fn": "MemoryWriter::<MDMemoryDescriptor>::alloc_with_val little-endian field placement"},
            "vk_alloc_from_array_memdesc_n2": {"class": "B", "bound": "2 symbolic MDMemoryDescriptor after a 2-byte symbolic image", "fn": "MemoryArrayWriter::alloc_from_array"},
            "vk_alloc_from_iter_threadname_n2": {"class": "B", "bound": "2 symbolic MDRawThreadName after a 2-byte symbolic image", "fn": "MemoryArrayWriter::alloc_from_iter"},
            "vk_string_supp": {"class": "B", "bound": "concrete string U+1D11E (surrogate pair) after a 2-byte symbolic image", "fn": "write_string_to_location"},
            "vk_string_bmp": {"class": "B", "bound": "concrete string U+00E9 U+20AC (2- and 3-byte UTF-8)", "fn": "write_string_to_location"},
        }},
        {"tiers": T, "jobs": 6, "timeout": 3000, "harnesses": {
            "vk_size_exception": {"class": "C", "fn": "scroll size of MDRawExceptionStream == 168"},
            "vk_write_at_u32_len5": {"class": "B", "bound": "5-byte symbolic buffer, every offset 0..=5, u32", "fn": "Buffer::write_at (twin of the Verus proof)"},
            "vk_alloc_from_array_u8_n5": {"class": "B", "bound": "5 symbolic bytes after a 2-byte image", "fn": "MemoryArrayWriter::<u8>::alloc_from_array"},
            "vk_string_empty": {"class": "B", "bound": "empty string", "fn": "write_string_to_location"},
            "vk_string_ascii": {"class": "B", "bound": "concrete string \"ab\"", "fn": "write_string_to_location"},
            "vk_string_mixed": {"class": "B", "bound": "concrete string 'a' U+1F600 U+FFFD (4 UTF-16 units)", "fn": "write_string_to_location"},
        }},
    ],
    "twins": {"write_at": ["vk_write_at_u32_len5"]},
    "trusted": [
        "verus/prelude/vec_index.rs: semantics of `&mut vec[a..b]` (uninterpreted predicate + axiom for Range<usize>); its bounds check is an inserted assert",
        "alloc_from_array / alloc_from_iter / write_string_to_location are external_body in Verus (enumerate(), encode_utf16 unsupported); their contracts are checked by Kani at tier B only",
    ],
    "samples": ["Buffer::write_at ensures: len' == max(len, off+size); bytes outside [off, off+size) unchanged; Ok => bytes == ser(val)",
                "MemoryArrayWriter::set_value_at requires index < array_size; ensures patched(old, new, pos + size*index, ser(val))",
                "MemoryArrayWriter::location_of_index ensures rva == pos + size*idx (no u32 overflow)"],
}

PLAN["C09"] = {
    "level": "proof",
    "explanation": "DirSection::{new, dump_dir_entry, write_to_file} proved verbatim against the destination invariant "
                   "(flushed prefix == image, frame outside [start, start+|image|)) for every start offset, pre-existing content and image, "
                   "generic in the Write+Seek destination (std::io semantics assumed as in verus/prelude/std_io.rs)",
    "verus": [{"unit": "dir_section", "functions": ["new", "position", "dump_dir_entry", "write_to_file"], "tags": ["C09"], "tiers": Q}],
    "kani": [],
    "trusted": ["verus/prelude/std_io.rs: model of std::io::{Write,Seek} on a seekable byte sink",
                "callers keep the invariant between calls (the image only grows, or is patched beyond the flushed prefix): generate_dump itself is outside Verus's reach"],
    "samples": ["write_to_file ensures Ok => inv && last == |image|; always frame(old dest, new dest, start, |image|)",
                "new ensures start == destination position on entry, destination contents untouched"],
}

PLAN["C10"] = {
    "level": "proof",
    "explanation": "a directory entry may reach the destination only after every byte of the image built so far has been flushed "
                   "(precondition of dump_dir_entry, obligation of its caller write_to_file); slots are written once in increasing order; "
                   "flushed bytes never change except directory slots (C09 contracts)",
    "verus": [{"unit": "dir_section", "functions": ["new", "dump_dir_entry", "write_to_file"], "tags": ["C10"], "tiers": Q}],
    "kani": [],
    "trusted": ["verus/prelude/std_io.rs: model of std::io::{Write,Seek}; a crash inside one write_all call is outside the statement",
                "that a stream's entry references only bytes below the image length at emission time is C01(b)"],
    "samples": ["dump_dir_entry requires last_position_written_to_file == |image|  [C10]"],
}


STACK = {"unit": "stack", "rlimit": 60, "tiers": Q}

PLAN["C06"] = {
    "level": "proof",
    "explanation": "get_stack_info and fill_thread_stack proved verbatim: a captured stack starts on the page of the stack pointer "
                   "(or in the first plausible stack mapping above it), extends to the end of that mapping without a limit, is at most the "
                   "limit with one, and contains the stack pointer whenever the stack pointer lies in a readable stack-like mapping",
    "verus": [dict(STACK, functions=["get_stack_info", "fill_thread_stack", "contains_address", "end_address"], tags=["C06"])],
    "kani": [],
    "trusted": ["copy_from_process satisfies copy_ok (C17 decides it for the ptrace strategy; assumed for process_vm_readv and /proc/pid/mem)",
                "find_mapping / may_be_stack contracts are assumed in Verus (iterator adapter, bitflags operator) and checked by Kani in C02's group",
                "which threads get the 2 KiB cap (list position >= 20, never the crash-context thread) is decided inside thread_list_stream::write, which Verus cannot read (enumerate()); see the Kani harness vk_tls_cap_selection when present"],
    "samples": ["get_stack_info ensures: is_first(k, page(sp)) && stack_like(maps[k]) ==> Ok && v == page(sp) && v+len == end(maps[k])",
                "fill_thread_stack ensures: sp in a readable stack-like mapping && included ==> start <= sp < start+len  [C06]"],
}

PLAN["C07"] = {
    "level": "proof",
    "explanation": "fill_thread_stack pushes exactly the non-empty stack descriptor whose bytes equal target memory (reader contract); "
                   "memory_list_stream::write serialises the recorded blocks verbatim, in order, with the count the size implies",
    "verus": [dict(STACK, functions=["fill_thread_stack", "memory_list_stream_write"], tags=["C07"])],
    "kani": [],
    "trusted": ["copy_from_process satisfies copy_ok (see C17)",
                "app_memory::write and the instruction-pointer window live in loops Verus cannot relate to positions (for-in without ghost index, enumerate()); "
                "they are Kani obligations (vk_app_memory_*, vk_ip_window_*) when present, otherwise not covered",
                "alloc_from_array contract assumed in Verus, checked by Kani (C16 group)"],
    "samples": ["memory_list_stream::write ensures: size == 4 + 16*n; element i == ser(memory_blocks[i])"],
}

PLAN["C20"] = {
    "level": "proof",
    "explanation": "fill_thread_stack keeps a stack under skip-unreferenced iff the instruction pointer lies in [low, high) of the principal mapping "
                   "or the copied bytes hold an aligned pointer into it; crash_thread_references_principal_mapping uses the same half-open range",
    "verus": [dict(STACK, functions=["fill_thread_stack", "crash_thread_references_principal_mapping"], tags=["C20"])],
    "kani": [],
    "trusted": ["stack_has_pointer_to_mapping's contract (has_ptr) is assumed in Verus (byteorder) and checked by Kani (vk_has_ptr_*)",
                "that dump() reports PrincipalMappingNotReferenced and still succeeds is the dump() control-flow harness (thorough tier)"],
    "samples": ["fill_thread_stack ensures: skip && principal is Some && included ==> ip_in(pm, ip) || exists bytes. copy_ok(..) && has_ptr(bytes, ..)  [C20]"],
}

# ---------------------------------------------------------------------------
# manifest text
# ---------------------------------------------------------------------------
TECHNIQUE = {
    "C16": "deductive verification (Verus contracts on verbatim src/mem_writer.rs) + Kani harnesses for per-type serialisation facts and the three functions Verus cannot read",
    "C09": "deductive verification (Verus): DirSection representation invariant proved function by function against an assumed std::io model",
    "C10": "deductive verification (Verus): flush-before-entry precondition of dump_dir_entry discharged at its call site",
    "C06": "deductive verification (Verus): postconditions of get_stack_info / fill_thread_stack on verbatim text",
    "C07": "deductive verification (Verus): postconditions of fill_thread_stack / memory_list_stream::write",
    "C20": "deductive verification (Verus): biconditional postcondition of fill_thread_stack and crash_thread_references_principal_mapping",
}
LEVEL_TEXT = {
    "C16": "unbounded proof for every Buffer/MemoryWriter/MemoryArrayWriter function Verus can read (all inputs, all buffer states); complete Kani proofs of the per-type size facts; bounded Kani checks (stated bounds) of alloc_from_array/alloc_from_iter/write_string_to_location",
    "C09": "unbounded proof, for every start offset, pre-existing destination content, image and operation, that each DirSection operation preserves 'flushed prefix == image' and touches nothing outside [start, start+|image|), relative to the assumed Write/Seek semantics",
    "C10": "unbounded proof that no directory entry reaches the destination before the bytes it can reference (the obligation that failed on the pinned tree and was repaired)",
    "C06": "unbounded proof over all stack pointers, mapping lists and page sizes of the stack-capture postconditions (containment of SP, page start, extent, 2 KiB cap), relative to the reader contract",
    "C07": "unbounded proof that stack regions and the serialised memory list are faithful, relative to the reader contract; app-memory and IP window are not yet under contract",
    "C20": "unbounded proof of the keep/drop rule for stacks under skip-unreferenced, relative to the assumed contract of the stack scanner (checked bounded by Kani)",
}
NOT_APPLICABLE = {p: "check not built yet (framework under construction; see DESIGN.md §4 for the planned units)" for p in
                  ["C01", "C02", "C03", "C04", "C05", "C08", "C11", "C12", "C13", "C14", "C15", "C17", "C18", "C19"]}

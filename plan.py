"""Which units decide which property, per tier. Read by bin/check.

verus: [{unit, functions (None = all), tags (clause tags that belong to this property), tiers}]
kani : [{harnesses: {name: {class: C|B, bound, fn}}, tiers, timeout, jobs}]
Classes: U unbounded Verus proof of verbatim text; C complete Kani proof (no bound involved);
         B bounded Kani stand-in (bound stated; never counted as proved).
"""

LEDGER = [
    "L1 Rust semantics as implemented by the Verus and Kani front ends; soundness of Verus/Z3 and Kani/CBMC/CaDiCaL; Kani run with --ignore-global-asm",
    "L2 prelude stand-ins (verus/prelude/*.rs) are faithful to the dependency types they replace: scroll traits, minidump-common PODs, error enums",
    "L3 machine integers are machine integers in both engines (overflow is an obligation); images are < 4 GiB where a contract says so (explicit precondition, not discharged for arbitrary targets)",
    "L4 target = x86_64 Linux, 64-bit usize; other cfg branches are neither compiled nor verified",
]

Q = ("quick", "thorough")
T = ("thorough",)

MEMW_FNS = ["position", "reserve", "write", "write_at", "write_all", "deref", "alloc_with_val", "alloc", "set_value",
            "location", "write_bytes", "alloc_array", "set_value_at", "location_of_index"]

PLAN = {}

PLAN["C16"] = {
    "level": "proof",
    "explanation": "every function of src/mem_writer.rs that Verus can read is proved against the layout laws for all inputs; "
                   "the three enumerate()/encode_utf16 users and the per-type scroll sizes are Kani obligations",
    "verus": [{"unit": "mem_writer", "functions": None, "tags": ["C16"], "tiers": Q}],
    "kani": [
        {"tiers": Q, "jobs": 8, "timeout": 1500, "harnesses": {
            "vk_size_u8": {"class": "C", "fn": "scroll size/serialisation of u8"},
            "vk_size_u16": {"class": "C", "fn": "scroll size/serialisation of u16"},
            "vk_size_u32": {"class": "C", "fn": "scroll size/serialisation of u32"},
            "vk_size_dirent": {"class": "C", "fn": "scroll size of MDRawDirectory == 12"},
            "vk_size_memdesc": {"class": "C", "fn": "scroll size of MDMemoryDescriptor == 16"},
            "vk_size_header": {"class": "C", "fn": "scroll size of MDRawHeader == 32"},
            "vk_size_thread": {"class": "C", "fn": "scroll size of MDRawThread == 48"},
            "vk_size_threadname": {"class": "C", "fn": "scroll size of MDRawThreadName == 12"},
            "vk_ser_dirent_layout": {"class": "C", "fn": "MemoryWriter::<MDRawDirectory>::alloc_with_val little-endian field placement"},
            "vk_ser_memdesc_layout": {"class": "C", "fn": "MemoryWriter::<MDMemoryDescriptor>::alloc_with_val little-endian field placement"},
            "vk_alloc_from_array_memdesc_n0": {"class": "B", "bound": "0 elements after a 2-byte image", "fn": "MemoryArrayWriter::alloc_from_array"},
            "vk_alloc_from_array_memdesc_n2": {"class": "B", "bound": "2 symbolic MDMemoryDescriptor after a 2-byte symbolic image", "fn": "MemoryArrayWriter::alloc_from_array"},
            "vk_alloc_from_iter_threadname_n2": {"class": "B", "bound": "2 symbolic MDRawThreadName after a 2-byte symbolic image", "fn": "MemoryArrayWriter::alloc_from_iter"},
            "vk_string_1char": {"class": "B", "bound": "1 char, every Unicode scalar value, after a 2-byte symbolic image", "fn": "write_string_to_location"},
        }},
        {"tiers": T, "jobs": 6, "timeout": 3000, "harnesses": {
            "vk_size_exception": {"class": "C", "fn": "scroll size of MDRawExceptionStream == 168"},
            "vk_write_at_u32_len5": {"class": "B", "bound": "5-byte symbolic buffer, every offset 0..=5, u32", "fn": "Buffer::write_at (twin of the Verus proof)"},
            "vk_alloc_from_array_u8_n5": {"class": "B", "bound": "5 symbolic bytes after a 2-byte image", "fn": "MemoryArrayWriter::<u8>::alloc_from_array"},
            "vk_string_empty": {"class": "B", "bound": "empty string", "fn": "write_string_to_location"},
            "vk_string_2char": {"class": "B", "bound": "2 chars, every pair of Unicode scalar values", "fn": "write_string_to_location"},
        }},
    ],
    "twins": {"write_at": ["vk_write_at_u32_len5"]},
    "trusted": [
        "verus/prelude/vec_index.rs: semantics of `&mut vec[a..b]` (uninterpreted predicate + axiom for Range<usize>); its bounds check is an inserted assert",
        "alloc_from_array / alloc_from_iter / write_string_to_location are external_body in Verus (enumerate(), encode_utf16 unsupported); their contracts are checked by Kani at tier B only",
    ],
    "samples": ["Buffer::write_at ensures: len' == max(len, off+size); bytes outside [off, off+size) unchanged; Ok => bytes == ser(val)",
                "MemoryArrayWriter::set_value_at requires index < array_size; ensures patched(old, new, pos + size*index, ser(val))",
                "MemoryArrayWriter::location_of_index ensures rva == pos + size*idx (no u32 overflow)"],
}

PLAN["C09"] = {
    "level": "proof",
    "explanation": "DirSection::{new, dump_dir_entry, write_to_file} proved verbatim against the destination invariant "
                   "(flushed prefix == image, frame outside [start, start+|image|)) for every start offset, pre-existing content and image, "
                   "generic in the Write+Seek destination (std::io semantics assumed as in verus/prelude/std_io.rs)",
    "verus": [{"unit": "dir_section", "functions": ["new", "position", "dump_dir_entry", "write_to_file"], "tags": ["C09"], "tiers": Q}],
    "kani": [],
    "trusted": ["verus/prelude/std_io.rs: model of std::io::{Write,Seek} on a seekable byte sink",
                "callers keep the invariant between calls (the image only grows, or is patched beyond the flushed prefix): generate_dump itself is outside Verus's reach"],
    "samples": ["write_to_file ensures Ok => inv && last == |image|; always frame(old dest, new dest, start, |image|)",
                "new ensures start == destination position on entry, destination contents untouched"],
}

PLAN["C10"] = {
    "level": "proof",
    "explanation": "a directory entry may reach the destination only after every byte of the image built so far has been flushed "
                   "(precondition of dump_dir_entry, obligation of its caller write_to_file); slots are written once in increasing order; "
                   "flushed bytes never change except directory slots (C09 contracts)",
    "verus": [{"unit": "dir_section", "functions": ["new", "dump_dir_entry", "write_to_file"], "tags": ["C10"], "tiers": Q}],
    "kani": [],
    "trusted": ["verus/prelude/std_io.rs: model of std::io::{Write,Seek}; a crash inside one write_all call is outside the statement",
                "that a stream's entry references only bytes below the image length at emission time is C01(b)"],
    "samples": ["dump_dir_entry requires last_position_written_to_file == |image|  [C10]"],
}

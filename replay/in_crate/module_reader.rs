//@inject src/linux/module_reader.rs
// C14, tier B′ (bounded-exhaustive, native): ELF identification on byte images.
//   * a small, well-formed ELF64 image built here field by field (independent of the crate's own test
//     image): build id == the GNU note descriptor, SONAME == the DT_SONAME string; with the note removed
//     the build id == the XOR-fold of the text section computed by an independent fold
//   * totality: EVERY single-field corruption of that image — each 2/4/8-byte header, program-header,
//     section-header, dynamic-entry and note-header field set to each of 14 boundary values — makes
//     BuildId / SoName::read_from_module return a value or an error, never panic (debug profile, overflow
//     checks on). Enumeration, not sampling.
use super::*;

struct Img { b: Vec<u8>, fields: Vec<(usize, usize)> }
impl Img {
    fn u16(&mut self, v: u16) { self.fields.push((self.b.len(), 2)); self.b.extend_from_slice(&v.to_le_bytes()); }
    fn u32(&mut self, v: u32) { self.fields.push((self.b.len(), 4)); self.b.extend_from_slice(&v.to_le_bytes()); }
    fn u64(&mut self, v: u64) { self.fields.push((self.b.len(), 8)); self.b.extend_from_slice(&v.to_le_bytes()); }
    fn raw(&mut self, v: &[u8]) { self.b.extend_from_slice(v); }
}

const DESC: [u8; 16] = [0x10, 0x21, 0x32, 0x43, 0x54, 0x65, 0x76, 0x87, 0x98, 0xa9, 0xba, 0xcb, 0xdc, 0xed, 0xfe, 0x0f];
const TEXT: [u8; 24] = [1, 2, 3, 4, 5, 6, 7, 8, 9, 10, 11, 12, 13, 14, 15, 16, 0xf0, 0xe0, 0xd0, 0xc0, 0xb0, 0xa0, 0x90, 0x80];

fn build_elf(with_note: bool) -> Img { build_elf_ex(with_note, None, false) }

/// `data_first`: a PROGBITS section with these flags (SHF_ALLOC only, like .rodata/.interp; or SHF_EXECINSTR only)
/// precedes .text; `abi_first`: a GNU ABI-tag note (name "GNU", type 1) precedes the build-id note
fn build_elf_ex(with_note: bool, data_first_flags: Option<u64>, abi_first: bool) -> Img {
    let data_first = data_first_flags.is_some();
    let shstr: &[u8] = b"\0.text\0.note.gnu.build-id\0.shstrtab\0.dynamic\0.dynstr\0";
    let dynstr: &[u8] = b"\0libfoo.so.1\0";
    let (phoff, phnum, shnum) = (64u64, 3u16, if data_first { 7u16 } else { 6u16 });
    let shoff = phoff + 56 * phnum as u64;
    let data0 = shoff + 64 * shnum as u64;
    let note_off = data0;
    let note_len = 12 + 4 + 16u64 + if abi_first { 12 + 4 + 16 } else { 0 };
    let shstr_off = note_off + note_len;
    let dyn_off = (shstr_off + shstr.len() as u64 + 7) & !7;
    let dyn_len = 4 * 16u64;
    let dynstr_off = dyn_off + dyn_len;
    let text_off = dynstr_off + dynstr.len() as u64;
    let total = text_off + TEXT.len() as u64;
    let mut i = Img { b: Vec::new(), fields: Vec::new() };
    // ELF header
    i.raw(&[0x7f, b'E', b'L', b'F', 2, 1, 1, 0, 0, 0, 0, 0, 0, 0, 0, 0]);
    i.u16(3); i.u16(0x3e); i.u32(1); i.u64(0); i.u64(phoff); i.u64(shoff); i.u32(0);
    i.u16(64); i.u16(56); i.u16(phnum); i.u16(64); i.u16(shnum); i.u16(if data_first { 4 } else { 3 });
    // program headers: LOAD(text), NOTE, DYNAMIC
    let ph = |i: &mut Img, t: u32, fl: u32, off: u64, sz: u64, al: u64| { i.u32(t); i.u32(fl); i.u64(off); i.u64(off); i.u64(off); i.u64(sz); i.u64(sz); i.u64(al); };
    ph(&mut i, 1, 5, text_off, TEXT.len() as u64, 16);
    ph(&mut i, if with_note { 4 } else { 0x6474e551 }, 4, note_off, note_len, 4);
    ph(&mut i, 2, 6, dyn_off, dyn_len, 8);
    // section headers: null, .text, .note.gnu.build-id, .shstrtab, .dynamic, .dynstr
    let sh = |i: &mut Img, name: u32, ty: u32, fl: u64, off: u64, sz: u64, link: u32, al: u64, ent: u64| { i.u32(name); i.u32(ty); i.u64(fl); i.u64(off); i.u64(off); i.u64(sz); i.u32(link); i.u32(0); i.u64(al); i.u64(ent); };
    sh(&mut i, 0, 0, 0, 0, 0, 0, 0, 0);
    if data_first {
        // PROGBITS, SHF_ALLOC only, covering the dynstr bytes: must NOT be taken for the text section
        sh(&mut i, 45, 1, data_first_flags.unwrap(), dynstr_off, dynstr.len() as u64, 0, 1, 0);
    }
    sh(&mut i, 1, 1, 6, text_off, TEXT.len() as u64, 0, 16, 0);
    sh(&mut i, if with_note { 7 } else { 0 }, if with_note { 7 } else { 0 }, 2, note_off, note_len, 0, 4, 0);
    sh(&mut i, 26, 3, 0, shstr_off, shstr.len() as u64, 0, 1, 0);
    sh(&mut i, 36, 6, 3, dyn_off, dyn_len, if data_first { 6 } else { 5 }, 8, 16);
    sh(&mut i, 45, 3, 2, dynstr_off, dynstr.len() as u64, 0, 1, 0);
    assert_eq!(i.b.len() as u64, data0);
    // notes
    if abi_first { i.u32(4); i.u32(16); i.u32(1); i.raw(b"GNU\0"); i.raw(&[0, 0, 0, 0, 3, 0, 0, 0, 2, 0, 0, 0, 0, 0, 0, 0]); }
    i.u32(4); i.u32(16); i.u32(3); i.raw(b"GNU\0"); i.raw(&DESC);
    i.raw(shstr);
    while (i.b.len() as u64) < dyn_off { i.raw(&[0]); }
    i.u64(14); i.u64(1);             // DT_SONAME -> offset 1
    i.u64(5); i.u64(dynstr_off);     // DT_STRTAB
    i.u64(10); i.u64(dynstr.len() as u64); // DT_STRSZ
    i.u64(0); i.u64(0);              // DT_NULL
    i.raw(dynstr);
    i.raw(&TEXT);
    assert_eq!(i.b.len() as u64, total);
    i
}

#[test]
fn c14_well_formed_image_is_identified() {
    let img = build_elf(true);
    let BuildId(id) = BuildId::read_from_module(ProcessMemory::Slice(&img.b)).expect("build id");
    assert_eq!(id, DESC, "build id == GNU build-id note descriptor");
    let SoName(n) = SoName::read_from_module(ProcessMemory::Slice(&img.b)).expect("soname");
    assert_eq!(n, "libfoo.so.1", "SONAME == DT_SONAME string");
    // no note: XOR-fold of the first page of the first executable section, 16 bytes
    let img = build_elf(false);
    let BuildId(id) = BuildId::read_from_module(ProcessMemory::Slice(&img.b)).expect("generated build id");
    let mut want = [0u8; 16];
    for (k, b) in TEXT.iter().enumerate() { want[k % 16] ^= b; }
    assert_eq!(id, want, "generated id == XOR-fold of .text");
    // an allocated but non-executable PROGBITS section in front of .text is not "the first executable section"
    let img = build_elf_ex(false, Some(2), false);
    let BuildId(id) = BuildId::read_from_module(ProcessMemory::Slice(&img.b)).expect("generated build id");
    assert_eq!(id, want, "generated id == XOR-fold of the first EXECUTABLE section, not of the first allocated one");
    let SoName(n) = SoName::read_from_module(ProcessMemory::Slice(&img.b)).expect("soname");
    assert_eq!(n, "libfoo.so.1");
    // ... nor is a PROGBITS section that is executable but NOT allocated
    let img = build_elf_ex(false, Some(4), false);
    let BuildId(id) = BuildId::read_from_module(ProcessMemory::Slice(&img.b)).expect("generated build id");
    assert_eq!(id, want, "generated id == XOR-fold of the first allocated executable section");
    // a GNU note of another type (ABI tag) in front of the build-id note is not the build id
    let img = build_elf_ex(true, None, true);
    let BuildId(id) = BuildId::read_from_module(ProcessMemory::Slice(&img.b)).expect("build id");
    assert_eq!(id, DESC, "build id == descriptor of the NT_GNU_BUILD_ID note, not of the first GNU note");
    // each of the two routes on its own: (a) no section headers at all (a module read from process memory):
    // program headers only; (b) no PT_NOTE / PT_DYNAMIC program headers: sections only
    let mut a = build_elf(true).b;
    a[40..48].copy_from_slice(&0u64.to_le_bytes()); // e_shoff
    a[60..62].copy_from_slice(&0u16.to_le_bytes()); // e_shnum
    a[62..64].copy_from_slice(&0u16.to_le_bytes()); // e_shstrndx
    let BuildId(id) = BuildId::read_from_module(ProcessMemory::Slice(&a)).expect("build id via program headers");
    assert_eq!(id, DESC, "program headers only: build id");
    let SoName(n) = SoName::read_from_module(ProcessMemory::Slice(&a)).expect("soname via program headers");
    assert_eq!(n, "libfoo.so.1", "program headers only: SONAME");
    let mut b = build_elf(true).b;
    b[64 + 56..64 + 56 + 4].copy_from_slice(&0u32.to_le_bytes());          // PT_NOTE    -> PT_NULL
    b[64 + 2 * 56..64 + 2 * 56 + 4].copy_from_slice(&0u32.to_le_bytes());  // PT_DYNAMIC -> PT_NULL
    let BuildId(id) = BuildId::read_from_module(ProcessMemory::Slice(&b)).expect("build id via sections");
    assert_eq!(id, DESC, "sections only: build id");
    let SoName(n) = SoName::read_from_module(ProcessMemory::Slice(&b)).expect("soname via sections");
    assert_eq!(n, "libfoo.so.1", "sections only: SONAME");
}

#[test]
fn bprime_single_field_corruptions_never_panic() {
    // C02 "never loops without bound": the enumeration runs in a worker; if it does not finish within the bound the
    // test FAILS and names the input it was parsing (a hang must be a verdict, not a timeout of the runner)
    static CURRENT: std::sync::Mutex<String> = std::sync::Mutex::new(String::new());
    let (tx, rx) = std::sync::mpsc::channel();
    std::thread::spawn(move || {
        let r = std::panic::catch_unwind(|| corruption_enumeration(&CURRENT));
        let _ = tx.send(r);
    });
    match rx.recv_timeout(std::time::Duration::from_secs(120)) {
        Ok(Ok(())) => {}
        Ok(Err(e)) => std::panic::resume_unwind(e),
        Err(_) => {
            let _ = std::panic::take_hook();   // the worker silenced the hook; the verdict must be visible
            panic!("ELF identification did not return within 120 s (whole enumeration normally takes seconds); it hangs on: {}", CURRENT.lock().map(|g| g.clone()).unwrap_or_default())
        }
    }
}

fn corruption_enumeration(current: &std::sync::Mutex<String>) {
    let base = build_elf(true);
    let len = base.b.len() as u64;
    let values: [u64; 14] = [0, 1, 2, 7, 8, len - 1, len, len + 1, 0xffff, 0xffff_ffff, 0x7fff_ffff_ffff_ffff,
                             u64::MAX - 63, u64::MAX - 7, u64::MAX];
    let hook = std::panic::take_hook();
    std::panic::set_hook(Box::new(|_| {}));
    let mut n = 0usize;
    let mut bad: Vec<String> = Vec::new();
    for with_note in [true, false] {
        let base = build_elf(with_note);
        // besides the generic extremes: every value that ANOTHER field of the image holds, and its neighbours
        // (offset == size, index == count, address == end ... are the boundaries the readers compare against)
        let mut values: Vec<u64> = values.to_vec();
        for &(off, width) in &base.fields {
            let mut raw = [0u8; 8];
            raw[..width].copy_from_slice(&base.b[off..off + width]);
            let v = u64::from_le_bytes(raw);
            values.extend([v.wrapping_sub(1), v, v.wrapping_add(1)]);
        }
        values.sort_unstable();
        values.dedup();
        for &(off, width) in &base.fields {
            for &v in &values {
                let mut b = base.b.clone();
                b[off..off + width].copy_from_slice(&v.to_le_bytes()[..width]);
                if let Ok(mut g) = current.try_lock() { *g = format!("field at offset {off} (width {width}) := {v:#x} (with_note={with_note})"); }
                let r1 = std::panic::catch_unwind(|| BuildId::read_from_module(ProcessMemory::Slice(&b)).map(|x| x.0).map_err(|_| ()));
                let r2 = std::panic::catch_unwind(|| SoName::read_from_module(ProcessMemory::Slice(&b)).map(|x| x.0).map_err(|_| ()));
                n += 2;
                if (r1.is_err() || r2.is_err()) && bad.len() < 12 {
                    bad.push(format!("field at offset {off} (width {width}) := {v:#x} (with_note={with_note}): build-id panicked={} soname panicked={}", r1.is_err(), r2.is_err()));
                }
            }
        }
    }
    // every PAIR of fields over a reduced value set
    let pair_values: [u64; 5] = [0, 5, len, u64::MAX - 3, u64::MAX];
    for with_note in [true, false] {
        let base = build_elf(with_note);
        for (ai, &(aoff, aw)) in base.fields.iter().enumerate() {
            for &(boff, bw) in &base.fields[ai + 1..] {
                for va in pair_values {
                    for vb in pair_values {
                        let mut b = base.b.clone();
                        b[aoff..aoff + aw].copy_from_slice(&va.to_le_bytes()[..aw]);
                        b[boff..boff + bw].copy_from_slice(&vb.to_le_bytes()[..bw]);
                        if let Ok(mut g) = current.try_lock() { *g = format!("fields at {aoff} := {va:#x} and {boff} := {vb:#x} (with_note={with_note})"); }
                        let r1 = std::panic::catch_unwind(|| BuildId::read_from_module(ProcessMemory::Slice(&b)).map(|x| x.0).map_err(|_| ()));
                        let r2 = std::panic::catch_unwind(|| SoName::read_from_module(ProcessMemory::Slice(&b)).map(|x| x.0).map_err(|_| ()));
                        n += 2;
                        if (r1.is_err() || r2.is_err()) && bad.len() < 12 {
                            bad.push(format!("fields at {aoff} := {va:#x} and {boff} := {vb:#x} (with_note={with_note}): build-id panicked={} soname panicked={}", r1.is_err(), r2.is_err()));
                        }
                    }
                }
            }
        }
    }
    std::panic::set_hook(hook);
    println!("BPRIME evaluations={n}");
    assert!(bad.is_empty(), "ELF identification panicked:\n{}", bad.join("\n"));
}

// ---------------------------------------------------------------------------
// C14, tier B′ (native, this process as the target): "reading the same module from target memory and from its file
// gives the same answers". Domain: every ELF image loaded into this test process — each file-backed mapping group
// whose first line has offset 0 and starts with the ELF magic (the test binary, libc, the dynamic linker, ...), read
// (a) through ProcessReader at its load address and (b) from the bytes of its file; plus the vDSO, whose "file" is a
// copy of its pages (one segment, file offsets == addresses) and whose dynamic section is NOT relocated by the loader
// (DT_STRTAB stays module-relative, unlike every glibc-loaded object). Both the build id and the SONAME are compared,
// an error on both sides counts as agreement. process_vm_readv on one's own pid needs no ptrace.
// ---------------------------------------------------------------------------
#[test]
fn bprime_memory_and_file_agree_for_loaded_modules() {
    let pid = std::process::id() as i32;
    let maps = std::fs::read_to_string("/proc/self/maps").unwrap();
    let mut seen = std::collections::HashSet::new();
    let mut n = 0usize;
    let mut with_soname = 0usize;
    for line in maps.lines() {
        let mut it = line.split_whitespace();
        let (range, _perms, offset) = (it.next().unwrap(), it.next().unwrap(), it.next().unwrap());
        let _dev = it.next();
        let _inode = it.next();
        let name = it.next().unwrap_or("");
        let (s, e) = range.split_once('-').unwrap();
        let (start, end) = (usize::from_str_radix(s, 16).unwrap(), usize::from_str_radix(e, 16).unwrap());
        let is_vdso = name == "[vdso]";
        if !(is_vdso || (name.starts_with('/') && offset.trim_start_matches('0').is_empty())) || !seen.insert(name.to_string()) {
            continue;
        }
        // SAFETY: the first page of a mapping of this process that is listed readable; checked below
        if !line.split_whitespace().nth(1).unwrap().starts_with('r') {
            continue;
        }
        let head = unsafe { std::slice::from_raw_parts(start as *const u8, 4) };
        if head != b"\x7fELF" {
            continue;
        }
        let image: Vec<u8> = if is_vdso {
            unsafe { std::slice::from_raw_parts(start as *const u8, end - start) }.to_vec()
        } else {
            match std::fs::read(name) { Ok(b) => b, Err(_) => continue }
        };
        let id_file = BuildId::read_from_module(image.as_slice().into()).ok().map(|b| b.0);
        let id_mem = BuildId::read_from_module(ProcessReader::new(pid, start).into()).ok().map(|b| b.0);
        assert_eq!(id_mem, id_file, "build id of {name} read from memory at {start:#x} differs from the one read from its file");
        let so_file = SoName::read_from_module(image.as_slice().into()).ok().map(|s| s.0);
        let so_mem = SoName::read_from_module(ProcessReader::new(pid, start).into()).ok().map(|s| s.0);
        assert_eq!(so_mem, so_file, "SONAME of {name} read from memory at {start:#x} differs from the one read from its file");
        if so_file.is_some() { with_soname += 1; }
        n += 1;
    }
    assert!(n >= 2, "setup: expected at least the test binary and one shared object, found {n} ELF images");
    assert!(with_soname >= 1, "setup: no loaded image with a SONAME");
    println!("BPRIME evaluations={n}");
}

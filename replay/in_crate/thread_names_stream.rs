//@inject src/linux/sections/thread_names_stream.rs
// Native replay of obligation kani:vk_thread_names_second_only (C15 / C01).
use super::*;
use crate::linux::ptrace_dumper::{Thread, __replay_ptrace_dumper::bare_dumper_with_threads};

fn le32(b: &[u8], at: usize) -> u32 { u32::from_le_bytes(b[at..at + 4].try_into().unwrap()) }
fn le64(b: &[u8], at: usize) -> u64 { u64::from_le_bytes(b[at..at + 8].try_into().unwrap()) }

fn read_name(img: &[u8], rva: usize) -> Option<String> {
    if rva + 4 > img.len() { return None; }
    let n = le32(img, rva) as usize;
    if rva + 4 + n > img.len() { return None; }
    let units: Vec<u16> = img[rva + 4..rva + 4 + n].chunks_exact(2).map(|c| u16::from_le_bytes([c[0], c[1]])).collect();
    String::from_utf16(&units).ok()
}

/// An unnamed thread before a named one: the stream must hold exactly one entry, (tid 22, "bc").
#[test]
fn c15_unnamed_thread_before_named_thread() {
    let dumper = bare_dumper_with_threads(vec![
        Thread { tid: 11, name: None },
        Thread { tid: 22, name: Some("bc".to_string()) },
    ]);
    let mut buffer = DumpBuf::with_capacity(0);
    let dirent = write(&mut buffer, &dumper).expect("write failed");
    std::mem::forget(dumper);
    let img: &[u8] = &buffer;
    assert_eq!(le32(img, 0), 1, "one thread has a name");
    assert_eq!(dirent.location.data_size, 4 + 12);
    let (tid, rva) = (le32(img, 4), le64(img, 8) as usize);
    assert_eq!(
        (tid, read_name(img, rva)),
        (22, Some("bc".to_string())),
        "entry 0 must pair tid 22 with \"bc\"; image = {img:02x?}"
    );
}

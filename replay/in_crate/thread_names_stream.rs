//@inject src/linux/sections/thread_names_stream.rs
// Native replay of obligation kani:vk_thread_names_second_only (C15 / C01).
use super::*;
use crate::linux::ptrace_dumper::{Thread, __replay_ptrace_dumper::bare_dumper_with_threads};

fn le32(b: &[u8], at: usize) -> u32 { u32::from_le_bytes(b[at..at + 4].try_into().unwrap()) }
fn le64(b: &[u8], at: usize) -> u64 { u64::from_le_bytes(b[at..at + 8].try_into().unwrap()) }

fn read_name(img: &[u8], rva: usize) -> Option<String> {
    if rva + 4 > img.len() { return None; }
    let n = le32(img, rva) as usize;
    if rva + 4 + n > img.len() { return None; }
    let units: Vec<u16> = img[rva + 4..rva + 4 + n].chunks_exact(2).map(|c| u16::from_le_bytes([c[0], c[1]])).collect();
    String::from_utf16(&units).ok()
}

/// An unnamed thread before a named one: the stream must hold exactly one entry, (tid 22, "bc").
#[test]
fn c15_unnamed_thread_before_named_thread() {
    let dumper = bare_dumper_with_threads(vec![
        Thread { tid: 11, name: None },
        Thread { tid: 22, name: Some("bc".to_string()) },
    ]);
    let mut buffer = DumpBuf::with_capacity(0);
    let dirent = write(&mut buffer, &dumper).expect("write failed");
    std::mem::forget(dumper);
    let img: &[u8] = &buffer;
    assert_eq!(le32(img, 0), 1, "one thread has a name");
    assert_eq!(dirent.location.data_size, 4 + 12);
    let (tid, rva) = (le32(img, 4), le64(img, 8) as usize);
    assert_eq!(
        (tid, read_name(img, rva)),
        (22, Some("bc".to_string())),
        "entry 0 must pair tid 22 with \"bc\"; image = {img:02x?}"
    );
}

/// C15, tier B′ (bounded-exhaustive, native): every thread list of 1..=3 threads over {unnamed} ∪ 7 names covering
/// every UTF-8 width, the BMP / supplementary-plane boundary (one and two UTF-16 units per character), the empty
/// name and the 15-byte comm limit — 8 + 64 + 512 lists: the stream holds exactly one entry per NAMED thread, in
/// list order, pairing that thread's id with exactly its name; the stream size is the one the count implies.
#[test]
fn bprime_thread_names_of_every_short_list() {
    const NAMES: [Option<&str>; 8] = [None, Some(""), Some("a"), Some("worker-1 x"), Some("na\u{ef}ve"), Some("\u{65e5}\u{672c}"),
                                      Some("\u{1f980}crab"), Some("a\u{1d11e}b\u{1f600}")];
    let mut n_eval = 0usize;
    for len in 1..=3usize {
        let mut idx = vec![0usize; len];
        loop {
            let threads: Vec<Thread> = idx.iter().enumerate().map(|(k, &i)| Thread { tid: 100 + 7 * k as i32, name: NAMES[i].map(|s| s.to_string()) }).collect();
            let want: Vec<(u32, String)> = threads.iter().filter_map(|t| t.name.clone().map(|n| (t.tid as u32, n))).collect();
            let dumper = bare_dumper_with_threads(threads);
            let mut buffer = DumpBuf::with_capacity(0);
            buffer.write_all(b"xyz");
            let dirent = write(&mut buffer, &dumper).expect("write failed");
            std::mem::forget(dumper);
            n_eval += 1;
            let img: &[u8] = &buffer;
            let base = dirent.location.rva as usize;
            assert_eq!(base, 3, "the stream is appended to the image ({idx:?})");
            assert_eq!(le32(img, base) as usize, want.len(), "one entry per named thread ({idx:?})");
            assert_eq!(dirent.location.data_size as usize, 4 + 12 * want.len(), "stream size ({idx:?})");
            for (k, (tid, name)) in want.iter().enumerate() {
                let e = base + 4 + 12 * k;
                let got = (le32(img, e), read_name(img, le64(img, e + 4) as usize));
                assert_eq!(got, (*tid, Some(name.clone())), "entry {k} of list {idx:?}");
            }
            // next list
            let mut p = 0;
            while p < len { idx[p] += 1; if idx[p] < NAMES.len() { break; } idx[p] = 0; p += 1; }
            if p == len { break; }
        }
    }
    println!("BPRIME evaluations={n_eval}");
}

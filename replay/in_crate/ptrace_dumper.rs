//@inject src/linux/ptrace_dumper.rs
// Native replays (plain rustc, debug profile) of obligations on src/linux/ptrace_dumper.rs.
// Injected as `#[cfg(test)] mod __replay_ptrace_dumper` into a scratch copy; run with
//   cargo test --offline --lib __replay_ptrace_dumper
use super::*;

pub(crate) fn bare_dumper(mappings: Vec<MappingInfo>) -> PtraceDumper {
    // zero-initialised, then filled field by field: robust against a change that adds a field
    unsafe {
        let mut d = core::mem::MaybeUninit::<PtraceDumper>::zeroed();
        let p = d.as_mut_ptr();
        core::ptr::write(core::ptr::addr_of_mut!((*p).pid), 0);
        core::ptr::write(core::ptr::addr_of_mut!((*p).threads_suspended), false);
        core::ptr::write(core::ptr::addr_of_mut!((*p).threads), Vec::new());
        core::ptr::write(core::ptr::addr_of_mut!((*p).auxv), Default::default());
        core::ptr::write(core::ptr::addr_of_mut!((*p).mappings), mappings);
        core::ptr::write(core::ptr::addr_of_mut!((*p).page_size), 4096);
        d.assume_init()
    }
}

pub(crate) fn bare_dumper_with_threads(threads: Vec<Thread>) -> PtraceDumper {
    let mut d = bare_dumper(Vec::new());
    d.threads = threads;
    d
}

fn mapping(start: usize, size: usize, perms: MMPermissions) -> MappingInfo {
    MappingInfo {
        start_address: start,
        size,
        system_mapping_info: crate::maps_reader::SystemMappingInfo { start_address: start, end_address: start + size },
        offset: 0,
        permissions: perms,
        name: None,
    }
}

/// C02 / obligation verus:stack::get_stack_info (arithmetic overflow of `stack_pointer += page_size`):
/// a stack pointer within 1 MiB of the top of the address space and no stack-like mapping above it.
#[test]
fn c02_get_stack_info_top_of_address_space() {
    for sp in [usize::MAX, usize::MAX - 8, usize::MAX - 0xfff, usize::MAX - 0x8_0000] {
        // in a thread with a time bound: a regression here is an endless loop, not only a panic
        let (tx, rx) = std::sync::mpsc::channel();
        std::thread::spawn(move || {
            let d = bare_dumper(vec![mapping(0x1000, 0x1000, MMPermissions::READ | MMPermissions::WRITE)]);
            let r = std::panic::catch_unwind(std::panic::AssertUnwindSafe(|| d.get_stack_info(sp).map_err(|_| ())));
            std::mem::forget(d);
            let _ = tx.send(r);
        });
        match rx.recv_timeout(std::time::Duration::from_secs(5)) {
            Ok(Ok(res)) => assert!(res.is_err(), "no mapping can contain sp={sp:#x}"),
            Ok(Err(_)) => panic!("get_stack_info({sp:#x}) panicked instead of returning an error"),
            Err(_) => panic!("get_stack_info({sp:#x}) did not return within 5 s"),
        }
    }
}

/// C20: a stack word equal to the END address of the mapping is not a pointer into it.
#[test]
fn c20_word_equal_to_end_address_is_not_a_reference() {
    let m = mapping(0x7000_0000, 0x1000, MMPermissions::READ | MMPermissions::EXECUTE);
    let mut stack = vec![0u8; 32];
    stack[8..16].copy_from_slice(&(0x7000_1000usize).to_ne_bytes());
    assert!(!m.stack_has_pointer_to_mapping(&stack, 0), "0x70001000 is one past the last byte of [0x70000000, 0x70001000)");
    stack[8..16].copy_from_slice(&(0x7000_0fffusize).to_ne_bytes());
    assert!(m.stack_has_pointer_to_mapping(&stack, 0));
}

/// C02: a stack copy shorter than one word must not panic.
#[test]
fn c02_short_stack_copy_does_not_panic() {
    let m = mapping(0x7000_0000, 0x1000, MMPermissions::READ | MMPermissions::EXECUTE);
    for len in 0..8usize {
        let stack = vec![0u8; len];
        let r = std::panic::catch_unwind(|| m.stack_has_pointer_to_mapping(&stack, 0));
        assert!(matches!(r, Ok(false)), "stack_has_pointer_to_mapping panicked on a {len}-byte stack copy");
    }
}

/// C12: a negative integer of small magnitude (-5) is "an integer of magnitude at most 4096" and must survive.
#[test]
fn c12_small_negative_integer_survives() {
    let d = bare_dumper(vec![mapping(0x7000_0000, 0x1000, MMPermissions::READ | MMPermissions::EXECUTE)]);
    let mut stack = Vec::new();
    for w in [(-5isize) as usize, (-4096isize) as usize, 4096usize, (-4097isize) as usize, 4097usize] {
        stack.extend_from_slice(&w.to_ne_bytes());
    }
    d.sanitize_stack_copy(&mut stack, 0x1234_0000, 0).unwrap();
    let words: Vec<usize> = stack.chunks_exact(8).map(|c| usize::from_ne_bytes(c.try_into().unwrap())).collect();
    let defaced = 0x0defaced0defacedusize;
    assert_eq!(
        words,
        vec![(-5isize) as usize, (-4096isize) as usize, 4096, defaced, defaced],
        "small negative integers must be kept, |x| > 4096 defaced"
    );
    std::mem::forget(d);
}

/// C12 / C02: a region shorter than the (aligned) stack-pointer offset: everything is below the stack
/// pointer, so the whole region is zeroed — and nothing panics.
#[test]
fn c12_region_shorter_than_offset() {
    let d = bare_dumper(vec![]);
    for (len, off) in [(12usize, 10usize), (8, 9), (0, 1), (16, 40)] {
        let mut stack = vec![0xAAu8; len];
        let r = std::panic::catch_unwind(std::panic::AssertUnwindSafe(|| d.sanitize_stack_copy(&mut stack, 0x1234_0000, off).is_ok()));
        assert!(matches!(r, Ok(true)), "sanitize_stack_copy(len={len}, sp_offset={off}) panicked or failed");
        assert!(stack.iter().all(|&b| b == 0) && stack.len() == len);
    }
    std::mem::forget(d);
}

// ---------------------------------------------------------------------------
// C12, tier B′ (bounded-exhaustive, native): sanitize_stack_copy against the statement, for EVERY element of
//   words     : 17 boundary values (small ints around +-4096, stack / executable / data mapping edges, an
//               address that aliases the executable mapping's pre-filter bucket, the sentinel itself)
//   stacks    : every pair of those words, followed by 0, 1 or 7 extra bytes (trailing partial word)
//   sp_offset : 0, 1, 7, 8, 9, 16, 17, 40
//   mappings  : two orders of {stack rw-, text r-x, data rw- (adjacent to text)}
// Enumeration, not sampling. The reference predicate below is written from the statement.
// ---------------------------------------------------------------------------
#[test]
fn bprime_sanitize_small_domain() {
    const S: usize = 0x7ffd_0000_0000; // stack mapping [S, S+0x2000)
    const X: usize = 0x5555_0000_0000; // text  mapping [X, X+0x1000), executable
    const D: usize = X + 0x1000;       // data  mapping [D, D+0x1000), not executable, same 2 MiB bucket as text
    let defaced = 0x0defaced0defacedusize;
    let words: [usize; 17] = [
        0, 1, 4096, 4097, (-1isize) as usize, (-4096isize) as usize, (-4097isize) as usize,
        S, S + 8, S + 0x2000 - 1, S + 0x2000, X, X + 0x1000 - 1, D, D + 0x1000, X + (2048usize << 21), defaced,
    ];
    let configs: [Vec<MappingInfo>; 2] = [
        vec![mapping(S, 0x2000, MMPermissions::READ | MMPermissions::WRITE), mapping(X, 0x1000, MMPermissions::READ | MMPermissions::EXECUTE), mapping(D, 0x1000, MMPermissions::READ | MMPermissions::WRITE)],
        vec![mapping(D, 0x1000, MMPermissions::READ | MMPermissions::WRITE), mapping(X, 0x1000, MMPermissions::READ | MMPermissions::EXECUTE), mapping(S, 0x2000, MMPermissions::READ | MMPermissions::WRITE)],
    ];
    let qualifies = |w: usize| -> bool {
        let s = w as isize;
        (-4096..=4096).contains(&s) || (S..S + 0x2000).contains(&w) || (X..X + 0x1000).contains(&w)
    };
    let mut n = 0usize;
    for cfg in configs {
        let d = bare_dumper(cfg);
        for &w0 in &words {
            for &w1 in &words {
                for extra in [0usize, 1, 7] {
                    for off in [0usize, 1, 7, 8, 9, 16, 17, 40] {
                        let mut input = Vec::new();
                        input.extend_from_slice(&w0.to_ne_bytes());
                        input.extend_from_slice(&w1.to_ne_bytes());
                        input.extend(std::iter::repeat(0xEEu8).take(extra));
                        let mut out = input.clone();
                        d.sanitize_stack_copy(&mut out, S + 0x100, off).expect("no failure mode");
                        n += 1;
                        assert_eq!(out.len(), input.len(), "length kept");
                        let first = std::cmp::min((off + 7) & !7, input.len());
                        assert!(out[..first].iter().all(|&b| b == 0), "bytes below the stack pointer are zero (w0={w0:#x} w1={w1:#x} extra={extra} off={off})");
                        let mut k = first;
                        while k + 8 <= input.len() {
                            let w = usize::from_ne_bytes(input[k..k + 8].try_into().unwrap());
                            let o = usize::from_ne_bytes(out[k..k + 8].try_into().unwrap());
                            let want = if qualifies(w) { w } else { defaced };
                            assert_eq!(o, want, "word {w:#x} at offset {k} (w0={w0:#x} w1={w1:#x} extra={extra} off={off})");
                            k += 8;
                        }
                        assert!(out[k..].iter().all(|&b| b == 0), "trailing partial word is zero");
                    }
                }
            }
        }
        std::mem::forget(d);
    }
    println!("BPRIME evaluations={n}");
}

// ---------------------------------------------------------------------------
// C12, tier B′: "every word that qualifies is left unchanged" across the geometry of the could-hit pre-filter (a table of
// 2^11 bits indexed by bits 21..31 of the address, i.e. periodic in 4 GiB): ONE executable mapping in every position
// relative to a 2 MiB bucket edge and to a 4 GiB period edge (before, straddling, after, exactly on, larger than a
// period), and for each every word among {start-1, start, start+1, middle, edge-1, edge, end-1, end, the same addresses
// one period higher (aliases)}; two words per stack so that the last-hit cache is exercised in both orders.
// Reference predicate from the statement: unchanged iff small integer, inside the stack mapping or inside the
// executable mapping; otherwise the sentinel.
// ---------------------------------------------------------------------------
#[test]
fn bprime_sanitize_mapping_geometry() {
    const S: usize = 0x7ffd_0000_0000; // stack mapping [S, S+0x2000)
    const G: usize = 1 << 32;          // period of the pre-filter
    const B: usize = 1 << 21;          // one bucket
    let defaced = 0x0defaced0defacedusize;
    let base = 0x7f00_0000_0000usize;  // a multiple of G
    assert_eq!(base % G, 0);
    // (start, size) of the executable mapping
    let geoms: [(usize, usize); 10] = [
        (base + 5 * B + 0x1000, 0x3000),            // inside one bucket
        (base + 6 * B - 0x1000, 0x2000),            // straddles a bucket edge
        (base + 6 * B, 0x1000),                     // starts exactly on a bucket edge
        (base + 6 * B - 0x1000, 0x1000),            // ends exactly on a bucket edge
        (base - 0x10_0000, 0x20_0000),              // straddles a period edge (2 MiB)
        (base - 0x1000, 0x2000),                    // straddles a period edge (2 pages)
        (base - 0x1000, 0x1000),                    // ends exactly on a period edge
        (base, 0x1000),                             // starts exactly on a period edge
        (base + 3 * B, G + 2 * B),                  // larger than a period
        (base + G - B, 3 * B),                      // three buckets across a period edge
    ];
    let mut n = 0usize;
    for (xs, xl) in geoms {
        let xe = xs + xl;
        let d = bare_dumper(vec![
            mapping(S, 0x2000, MMPermissions::READ | MMPermissions::WRITE),
            mapping(xs, xl, MMPermissions::READ | MMPermissions::EXECUTE),
        ]);
        let edge = (xs / G + 1) * G; // the next period edge above the start
        let mut words = vec![xs - 1, xs, xs + 1, xs + xl / 2, xe - 1, xe, xe + 1, edge - 1, edge, edge + 1, xs - B, xe + B];
        let alias: Vec<usize> = words.iter().map(|w| w + G).chain(words.iter().map(|w| w - G)).collect();
        words.extend(alias);
        let qualifies = |w: usize| -> bool {
            let s = w as isize;
            (-4096..=4096).contains(&s) || (S..S + 0x2000).contains(&w) || (xs..xe).contains(&w)
        };
        for &w0 in &words {
            for &w1 in &words {
                let mut input = Vec::new();
                input.extend_from_slice(&w0.to_ne_bytes());
                input.extend_from_slice(&w1.to_ne_bytes());
                let mut out = input.clone();
                d.sanitize_stack_copy(&mut out, S + 0x100, 0).expect("no failure mode");
                n += 1;
                for (k, w) in [(0usize, w0), (8, w1)] {
                    let o = usize::from_ne_bytes(out[k..k + 8].try_into().unwrap());
                    let want = if qualifies(w) { w } else { defaced };
                    assert_eq!(o, want, "word {w:#x} at offset {k} with the executable mapping [{xs:#x}, {xe:#x}) (w0={w0:#x} w1={w1:#x})");
                }
            }
        }
        std::mem::forget(d);
    }
    println!("BPRIME evaluations={n}");
}

// ---------------------------------------------------------------------------
// C04 / C15, tier B′ (native, this process as the target): enumerate_threads lists every thread of the
// process exactly once with the name the kernel reports (trailing newline removed, nothing else).
// Domain: 10 helper threads with names covering length 0..15, leading/inner/trailing whitespace, non-ASCII, and two
// names that are not UTF-8 in front of readable ones.
// ---------------------------------------------------------------------------
#[test]
fn bprime_enumerate_threads_of_this_process() {
    use std::sync::{Arc, Barrier};
    // the 3rd and 6th names are not UTF-8 (a 16-byte name of two-byte characters cut by the kernel at 15 bytes; a lone
    // 0xff): their threads are listed without a name, one soft error each, and the readable names AFTER them are intact
    let names: [&[u8]; 10] = [b"plain", b"  lead er", b"\xc3\xa9\xc3\xa9\xc3\xa9\xc3\xa9\xc3\xa9\xc3\xa9\xc3\xa9\xc3", b"\tw\xc3\xb6rker", b"fifteen-chars-x",
                              b"a\xffb", b"in ner  sp", b"trail sp ", b"", b"x"];
    let start = Arc::new(Barrier::new(names.len() + 1));
    let stop = Arc::new(Barrier::new(names.len() + 1));
    let tids = Arc::new(std::sync::Mutex::new(Vec::new()));
    let mut handles = Vec::new();
    for name in names {
        let (start, stop, tids) = (start.clone(), stop.clone(), tids.clone());
        handles.push(std::thread::spawn(move || {
            let mut buf = [0u8; 16];
            buf[..name.len()].copy_from_slice(name);
            unsafe { libc::prctl(libc::PR_SET_NAME, buf.as_ptr()); }
            tids.lock().unwrap().push((unsafe { libc::gettid() }, String::from_utf8(name.to_vec()).ok()));
            start.wait();
            stop.wait();
        }));
    }
    start.wait();
    let mut d = bare_dumper(vec![]);
    d.pid = std::process::id() as Pid;
    let mut errs = ErrorList::<InitError>::default();
    d.enumerate_threads(&mut errs).expect("enumerate_threads");
    let listed: Vec<(Pid, Option<String>)> = d.threads.iter().map(|t| (t.tid, t.name.clone())).collect();
    // second pass with every thread-name read failing (fail point): the threads are still all listed, without a
    // name, and each failure is reported (C04 "appears exactly once", C11 "reading a thread name ... never makes the dump fail")
    let (unnamed, name_errs) = {
        let mut client = crate::FailSpotName::testing_client();
        client.set_enabled(crate::FailSpotName::ThreadName, true);
        let mut d2 = bare_dumper(vec![]);
        d2.pid = std::process::id() as Pid;
        let mut errs2 = ErrorList::<InitError>::default();
        let r = d2.enumerate_threads(&mut errs2);
        client.set_enabled(crate::FailSpotName::ThreadName, false);
        r.expect("enumerate_threads with unreadable thread names");
        let l: Vec<(Pid, Option<String>)> = d2.threads.iter().map(|t| (t.tid, t.name.clone())).collect();
        std::mem::forget(d2);
        (l, errs2.len())
    };
    // the kernel's own list
    let mut kernel: Vec<Pid> = std::fs::read_dir("/proc/self/task").unwrap().map(|e| e.unwrap().file_name().to_str().unwrap().parse().unwrap()).collect();
    stop.wait();
    for h in handles { h.join().unwrap(); }
    kernel.sort();
    let mut got: Vec<Pid> = listed.iter().map(|t| t.0).collect();
    got.sort();
    assert_eq!(got, kernel, "every thread of the process exactly once");
    let unreadable = names.iter().filter(|n| std::str::from_utf8(n).is_err()).count();
    assert_eq!(errs.len(), unreadable, "one soft error per thread whose name is not UTF-8, none for the others");
    let mut got2: Vec<Pid> = unnamed.iter().map(|t| t.0).collect();
    got2.sort();
    assert_eq!(got2, kernel, "a thread whose name cannot be read is still listed, exactly once");
    assert!(unnamed.iter().all(|t| t.1.is_none()), "no name where none could be read");
    assert_eq!(name_errs, kernel.len(), "one ReadThreadNameFailed soft error per thread");
    let mut n = 0;
    for (tid, name) in tids.lock().unwrap().iter() {
        let entry = listed.iter().find(|t| t.0 == *tid).expect("helper thread listed");
        assert_eq!(entry.1.as_deref(), name.as_deref(), "thread {tid}: the name the kernel reports (none when it is not UTF-8)");
        n += 1;
    }
    println!("BPRIME evaluations={n}");
    std::mem::forget(d);
}

// ---------------------------------------------------------------------------
// C08, tier B′ (native, this process as the target): for EVERY derived mapping of this process taken as the
// one that holds the program entry point, enumerate_mappings puts it first and otherwise keeps the set of
// mappings unchanged.
// ---------------------------------------------------------------------------
#[test]
fn bprime_entry_point_mapping_is_first() {
    let pid = std::process::id() as Pid;
    let reference = {
        let mut d = bare_dumper(vec![]);
        d.pid = pid;
        d.enumerate_mappings().expect("enumerate_mappings");
        let m = d.mappings.clone();
        std::mem::forget(d);
        m
    };
    assert!(reference.len() > 5);
    let mut n = 0;
    for target in reference.iter().filter(|m| m.name_is_path()) {
        for entry in [target.start_address, target.start_address + target.size - 1] {
            let mut d = bare_dumper(vec![]);
            d.pid = pid;
            d.auxv = crate::linux::auxv::AuxvDumpInfo::from(crate::linux::auxv::DirectAuxvDumpInfo {
                program_header_count: 0, program_header_address: 0, linux_gate_address: 0, entry_address: entry as u64,
            });
            d.enumerate_mappings().expect("enumerate_mappings");
            n += 1;
            // the heap may grow between two reads of /proc/self/maps: compare by start address only
            let first = &d.mappings[0];
            assert!(first.start_address <= entry && entry < first.start_address + first.size,
                "entry {entry:#x}: the first mapping is {:#x}+{:#x} ({:?}), expected the one starting at {:#x}",
                first.start_address, first.size, first.name, target.start_address);
            // anonymous regions (heap, arenas) move while this test allocates: compare the file-backed ones
            let mut a: Vec<usize> = d.mappings.iter().filter(|m| m.name_is_path()).map(|m| m.start_address).collect();
            let mut b: Vec<usize> = reference.iter().filter(|m| m.name_is_path()).map(|m| m.start_address).collect();
            a.sort(); b.sort();
            assert_eq!(a, b, "the set of mappings is unchanged by the reordering");
            std::mem::forget(d);
        }
    }
    println!("BPRIME evaluations={n}");
}

impl PtraceDumper {
    /// test-only: run the private enumerate_mappings (used by sibling replay modules)
    pub(crate) fn enumerate_mappings_for_replay(&mut self) {
        self.enumerate_mappings().expect("enumerate_mappings");
    }
}

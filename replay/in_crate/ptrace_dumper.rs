//@inject src/linux/ptrace_dumper.rs
// Native replays (plain rustc, debug profile) of obligations on src/linux/ptrace_dumper.rs.
// Injected as `#[cfg(test)] mod __replay_ptrace_dumper` into a scratch copy; run with
//   cargo test --offline --lib __replay_ptrace_dumper
use super::*;

fn bare_dumper(mappings: Vec<MappingInfo>) -> PtraceDumper {
    PtraceDumper {
        pid: 0,
        threads_suspended: false,
        threads: Vec::new(),
        auxv: Default::default(),
        mappings,
        page_size: 4096,
    }
}

fn mapping(start: usize, size: usize, perms: MMPermissions) -> MappingInfo {
    MappingInfo {
        start_address: start,
        size,
        system_mapping_info: crate::maps_reader::SystemMappingInfo { start_address: start, end_address: start + size },
        offset: 0,
        permissions: perms,
        name: None,
    }
}

/// C02 / obligation verus:stack::get_stack_info (arithmetic overflow of `stack_pointer += page_size`):
/// a stack pointer within 1 MiB of the top of the address space and no stack-like mapping above it.
#[test]
fn c02_get_stack_info_top_of_address_space() {
    let d = bare_dumper(vec![mapping(0x1000, 0x1000, MMPermissions::READ | MMPermissions::WRITE)]);
    for sp in [usize::MAX, usize::MAX - 8, usize::MAX - 0xfff, usize::MAX - 0x8_0000] {
        let r = std::panic::catch_unwind(|| d.get_stack_info(sp).map_err(|_| ()));
        match r {
            Ok(res) => assert!(res.is_err(), "no mapping can contain sp={sp:#x}"),
            Err(_) => panic!("get_stack_info({sp:#x}) panicked instead of returning an error"),
        }
    }
}

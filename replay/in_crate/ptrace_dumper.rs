//@inject src/linux/ptrace_dumper.rs
// Native replays (plain rustc, debug profile) of obligations on src/linux/ptrace_dumper.rs.
// Injected as `#[cfg(test)] mod __replay_ptrace_dumper` into a scratch copy; run with
//   cargo test --offline --lib __replay_ptrace_dumper
use super::*;

pub(crate) fn bare_dumper(mappings: Vec<MappingInfo>) -> PtraceDumper {
    // zero-initialised, then filled field by field: robust against a change that adds a field
    unsafe {
        let mut d = core::mem::MaybeUninit::<PtraceDumper>::zeroed();
        let p = d.as_mut_ptr();
        core::ptr::write(core::ptr::addr_of_mut!((*p).pid), 0);
        core::ptr::write(core::ptr::addr_of_mut!((*p).threads_suspended), false);
        core::ptr::write(core::ptr::addr_of_mut!((*p).threads), Vec::new());
        core::ptr::write(core::ptr::addr_of_mut!((*p).auxv), Default::default());
        core::ptr::write(core::ptr::addr_of_mut!((*p).mappings), mappings);
        core::ptr::write(core::ptr::addr_of_mut!((*p).page_size), 4096);
        d.assume_init()
    }
}

pub(crate) fn bare_dumper_with_threads(threads: Vec<Thread>) -> PtraceDumper {
    let mut d = bare_dumper(Vec::new());
    d.threads = threads;
    d
}

fn mapping(start: usize, size: usize, perms: MMPermissions) -> MappingInfo {
    MappingInfo {
        start_address: start,
        size,
        system_mapping_info: crate::maps_reader::SystemMappingInfo { start_address: start, end_address: start + size },
        offset: 0,
        permissions: perms,
        name: None,
    }
}

/// C02 / obligation verus:stack::get_stack_info (arithmetic overflow of `stack_pointer += page_size`):
/// a stack pointer within 1 MiB of the top of the address space and no stack-like mapping above it.
#[test]
fn c02_get_stack_info_top_of_address_space() {
    let d = bare_dumper(vec![mapping(0x1000, 0x1000, MMPermissions::READ | MMPermissions::WRITE)]);
    for sp in [usize::MAX, usize::MAX - 8, usize::MAX - 0xfff, usize::MAX - 0x8_0000] {
        let r = std::panic::catch_unwind(|| d.get_stack_info(sp).map_err(|_| ()));
        match r {
            Ok(res) => assert!(res.is_err(), "no mapping can contain sp={sp:#x}"),
            Err(_) => panic!("get_stack_info({sp:#x}) panicked instead of returning an error"),
        }
    }
}

/// C20: a stack word equal to the END address of the mapping is not a pointer into it.
#[test]
fn c20_word_equal_to_end_address_is_not_a_reference() {
    let m = mapping(0x7000_0000, 0x1000, MMPermissions::READ | MMPermissions::EXECUTE);
    let mut stack = vec![0u8; 32];
    stack[8..16].copy_from_slice(&(0x7000_1000usize).to_ne_bytes());
    assert!(!m.stack_has_pointer_to_mapping(&stack, 0), "0x70001000 is one past the last byte of [0x70000000, 0x70001000)");
    stack[8..16].copy_from_slice(&(0x7000_0fffusize).to_ne_bytes());
    assert!(m.stack_has_pointer_to_mapping(&stack, 0));
}

/// C02: a stack copy shorter than one word must not panic.
#[test]
fn c02_short_stack_copy_does_not_panic() {
    let m = mapping(0x7000_0000, 0x1000, MMPermissions::READ | MMPermissions::EXECUTE);
    for len in 0..8usize {
        let stack = vec![0u8; len];
        let r = std::panic::catch_unwind(|| m.stack_has_pointer_to_mapping(&stack, 0));
        assert!(matches!(r, Ok(false)), "stack_has_pointer_to_mapping panicked on a {len}-byte stack copy");
    }
}

/// C12: a negative integer of small magnitude (-5) is "an integer of magnitude at most 4096" and must survive.
#[test]
fn c12_small_negative_integer_survives() {
    let d = bare_dumper(vec![mapping(0x7000_0000, 0x1000, MMPermissions::READ | MMPermissions::EXECUTE)]);
    let mut stack = Vec::new();
    for w in [(-5isize) as usize, (-4096isize) as usize, 4096usize, (-4097isize) as usize, 4097usize] {
        stack.extend_from_slice(&w.to_ne_bytes());
    }
    d.sanitize_stack_copy(&mut stack, 0x1234_0000, 0).unwrap();
    let words: Vec<usize> = stack.chunks_exact(8).map(|c| usize::from_ne_bytes(c.try_into().unwrap())).collect();
    let defaced = 0x0defaced0defacedusize;
    assert_eq!(
        words,
        vec![(-5isize) as usize, (-4096isize) as usize, 4096, defaced, defaced],
        "small negative integers must be kept, |x| > 4096 defaced"
    );
    std::mem::forget(d);
}

/// C12 / C02: a region shorter than the (aligned) stack-pointer offset: everything is below the stack
/// pointer, so the whole region is zeroed — and nothing panics.
#[test]
fn c12_region_shorter_than_offset() {
    let d = bare_dumper(vec![]);
    for (len, off) in [(12usize, 10usize), (8, 9), (0, 1), (16, 40)] {
        let mut stack = vec![0xAAu8; len];
        let r = std::panic::catch_unwind(std::panic::AssertUnwindSafe(|| d.sanitize_stack_copy(&mut stack, 0x1234_0000, off).is_ok()));
        assert!(matches!(r, Ok(true)), "sanitize_stack_copy(len={len}, sp_offset={off}) panicked or failed");
        assert!(stack.iter().all(|&b| b == 0) && stack.len() == len);
    }
    std::mem::forget(d);
}

//@inject src/linux/maps_reader.rs
// Native bounded-exhaustive contract checks (tier B′) and replays for src/linux/maps_reader.rs.
use super::*;

/// C02 (tier B′, bounded-exhaustive, native): SoVersion::parse is total on every file name
/// "lib.so." + s, s over the alphabet {0,1,9,.,a,-,é,€} with |s| <= 5 (37449 names): it returns
/// without panicking. Enumeration, not sampling.
#[test]
fn bprime_so_version_parse_is_total() {
    let alphabet = ['0', '1', '9', '.', 'a', '-', '\u{e9}', '\u{20ac}'];
    let mut names: Vec<String> = vec![String::new()];
    let mut frontier = vec![String::new()];
    for _ in 0..5 {
        let mut next = Vec::new();
        for s in &frontier {
            for c in alphabet {
                let mut t = s.clone();
                t.push(c);
                next.push(t);
            }
        }
        names.extend(next.iter().cloned());
        frontier = next;
    }
    let mut n = 0usize;
    let mut first_panic: Option<String> = None;
    let hook = std::panic::take_hook();
    std::panic::set_hook(Box::new(|_| {}));
    for s in &names {
        let name = format!("/usr/lib/lib.so.{s}");
        let r = std::panic::catch_unwind(|| SoVersion::parse(OsStr::new(&name)).map(|v| (v.major, v.minor, v.patch, v.prerelease)));
        n += 1;
        if r.is_err() && first_panic.is_none() {
            first_panic = Some(name);
        }
    }
    std::panic::set_hook(hook);
    println!("BPRIME evaluations={n}");
    assert!(first_panic.is_none(), "SoVersion::parse panicked on {:?}", first_panic.unwrap());
}

/// C02 replay through the public API: the module-name step of the module list for a mapped file whose
/// version suffix contains a non-ASCII character.
#[test]
fn c02_effective_name_with_non_ascii_version() {
    let m = MappingInfo {
        start_address: 0x1000,
        size: 0x1000,
        system_mapping_info: SystemMappingInfo { start_address: 0x1000, end_address: 0x2000 },
        offset: 0,
        permissions: MMPermissions::READ,
        name: Some(OsString::from("/usr/lib/lib.so.1.2.3\u{e9}4")),
    };
    let r = std::panic::catch_unwind(|| m.get_mapping_effective_path_name_and_version(Some("lib.so.1".to_string())).is_ok());
    assert!(r.is_ok(), "get_mapping_effective_path_name_and_version panicked on a name the kernel can report");
}

// ---------------------------------------------------------------------------
// C13, tier B′ (bounded-exhaustive, native): MappingInfo::aggregate (through procfs-core's real parser) on
// EVERY memory map of 1..=3 lines over this per-line domain (80 lines per position, 518 480 maps):
//   placement : directly after the previous line, or after a one-page hole
//   size      : one page
//   perms     : r-xp, rw-p, r--p, ---p
//   offset    : 0 or 0x1000
//   name      : none, /a, /b, "/a (deleted)", "/a (deleted) (deleted)" (an unlinked file whose own name ends in the marker)
// plus, for each map, every choice of vDSO address among {none, start of line k}.
// Checked against the statement (independent reference predicates, no re-implementation of the merge loop):
//   P1 ascending, no overlaps            P2 every line lies in exactly one derived mapping
//   P3 a derived mapping is exactly the hull of the consecutive, contiguous lines inside it
//   P4 two neighbouring lines share a derived mapping only if contiguous and (same name, or one of them is
//      the linker's inaccessible reserved gap after / between parts of an executable file mapping)
//   P5 the non-path line that starts at the vDSO address is named linux-gate.so
//   P7 kernel-reported range = [start, end of the last non-gap line); P8 permissions = union over the same lines
//   P9 offset = offset of the first line; P10 same-file contiguous lines (also around one empty page) ARE merged
//   P6 a derived mapping carries the mapped path of its first line without the " (deleted)" marker
// ---------------------------------------------------------------------------
#[derive(Clone, Copy, PartialEq, Debug)]
struct Line { start: usize, end: usize, perms: usize, offset: usize, name: usize }

const PERMS: [&str; 4] = ["r-xp", "rw-p", "r--p", "---p"];
const NAMES: [&str; 5] = ["", "/a", "/b", "/a (deleted)", "/a (deleted) (deleted)"];

fn render(lines: &[Line]) -> String {
    let mut s = String::new();
    for l in lines {
        // procfs-core wants the trailing space on anonymous lines
        s.push_str(&format!("{:x}-{:x} {} {:08x} 00:00 0 {}\n", l.start, l.end, PERMS[l.perms], l.offset, NAMES[l.name]));
    }
    s
}

fn sanitized(name: usize) -> Option<&'static str> {
    // the kernel appends ONE marker: an unlinked file that is itself called "/a (deleted)" is a different file from "/a"
    match name { 0 => None, 1 | 3 => Some("/a"), 4 => Some("/a (deleted)"), _ => Some("/b") }
}
fn inaccessible(l: &Line) -> bool { l.perms == 3 }
fn executable(l: &Line) -> bool { l.perms == 0 }

fn check_map(lines: &[Line], gate: Option<usize>, n_eval: &mut usize) -> std::result::Result<(), String> {
    use procfs_core::FromRead;
    let text = render(lines);
    let maps = MemoryMaps::from_read(text.as_bytes()).map_err(|e| format!("parser rejected the map: {e:?}"))?;
    let out = MappingInfo::aggregate(maps, gate.map(|g| g as u64)).map_err(|e| format!("aggregate failed: {e:?}"))?;
    *n_eval += 1;
    // P1
    for w in out.windows(2) {
        if !(w[0].start_address + w[0].size <= w[1].start_address) {
            return Err(format!("P1 order/overlap: {:x}+{:x} then {:x}", w[0].start_address, w[0].size, w[1].start_address));
        }
    }
    // P2 + membership
    let mut owner = Vec::new();
    for l in lines {
        let holders: Vec<usize> = out.iter().enumerate()
            .filter(|(_, m)| m.start_address <= l.start && l.end <= m.start_address + m.size).map(|(i, _)| i).collect();
        if holders.len() != 1 {
            return Err(format!("P2 line {:x}-{:x} is contained in {} derived mappings", l.start, l.end, holders.len()));
        }
        owner.push(holders[0]);
    }
    // P3
    for (i, m) in out.iter().enumerate() {
        let mine: Vec<&Line> = lines.iter().zip(&owner).filter(|(_, o)| **o == i).map(|(l, _)| l).collect();
        if mine.is_empty() { return Err(format!("P3 derived mapping {:x} holds no line", m.start_address)); }
        let lo = mine.first().unwrap().start;
        let hi = mine.last().unwrap().end;
        if m.start_address != lo || m.start_address + m.size != hi {
            return Err(format!("P3 extent {:x}-{:x} is not the hull {:x}-{:x}", m.start_address, m.start_address + m.size, lo, hi));
        }
        for w in mine.windows(2) {
            if w[0].end != w[1].start { return Err("P3 a hole inside a derived mapping".to_string()); }
        }
    }
    // P4: every line that joins an existing group does so under one of the three rules
    for k in 1..lines.len() {
        if owner[k] != owner[k - 1] { continue; }
        let l = &lines[k];
        let is_gate = |x: &Line| gate == Some(x.start) && !NAMES[x.name].contains('/');
        let name_of = |x: &Line| if is_gate(x) { Some("linux-gate.so") } else { sanitized(x.name) };
        let first = (0..k).rev().take_while(|&j| owner[j] == owner[k]).last().unwrap();
        let group_name = name_of(&lines[first]);
        let group_is_file = group_name.map_or(false, |n| n.contains('/'));
        // (1) it carries the name of the derived mapping
        let same_name = group_name.is_some() && name_of(l) == group_name;
        // (2) inaccessible reserved gap directly after an executable file mapping
        let gap_after_exec = inaccessible(l) && group_is_file && (first..k).any(|j| executable(&lines[j]));
        // (3) anonymous inaccessible page between two parts of the same file mapping
        let gap_between = inaccessible(l) && sanitized(l.name).is_none() && l.offset == 0 && group_is_file
            && k + 1 < lines.len() && owner[k + 1] == owner[k] && name_of(&lines[k + 1]) == group_name;
        if !(same_name || gap_after_exec || gap_between) {
            return Err(format!("P4 line {k} joined the mapping that starts at line {first} without a rule: {l:?}"));
        }
    }
    // P6 (C08 "whose name is the mapped path", C13): a derived mapping is named after its first line — the mapped path
    // WITHOUT the kernel's " (deleted)" marker, nothing for an anonymous line (the vDSO line is P5's business)
    for (i, m) in out.iter().enumerate() {
        let first = lines.iter().zip(&owner).find(|(_, o)| **o == i).map(|(l, _)| l).unwrap();
        if gate == Some(first.start) && !NAMES[first.name].contains('/') { continue; }
        let want = sanitized(first.name).map(OsStr::new);
        if m.name.as_deref() != want {
            return Err(format!("P6 the mapping at {:x} (first line named {:?}) is named {:?}, expected {:?}", m.start_address, NAMES[first.name], m.name, want));
        }
    }
    // P7 / P8 (what the stack-capture and module contracts ASSUME of a derived mapping, `map_wf` in
    // verus/inc/maps_specs.inc): the kernel-reported range starts where the mapping starts and ends at the end of the
    // last merged line that carries the mapping's name (the reserved-gap rule deliberately leaves the range
    // alone); the permissions are the union over the same lines
    for (i, m) in out.iter().enumerate() {
        let mine: Vec<&Line> = lines.iter().zip(&owner).filter(|(_, o)| **o == i).map(|(l, _)| l).collect();
        let group = sanitized(mine[0].name);
        // lines that carry the mapping's name extend it fully; a line merged as reserved gap (whatever it is called) does not
        let counted: Vec<&&Line> = mine.iter().enumerate().filter(|(k, l)| *k == 0 || (group.is_some() && sanitized(l.name) == group)).map(|(_, l)| l).collect();
        let sys_end = counted.last().unwrap().end;
        if m.system_mapping_info.start_address != m.start_address || m.system_mapping_info.end_address != sys_end {
            return Err(format!("P7 kernel-reported range of the mapping at {:x} is {:x}-{:x}, expected {:x}-{:x}", m.start_address,
                m.system_mapping_info.start_address, m.system_mapping_info.end_address, m.start_address, sys_end));
        }
        let bits = |l: &Line| match l.perms { 0 => 1 | 4, 1 => 1 | 2, 2 => 1, _ => 0 } | 16u8;
        let want = counted.iter().fold(0u8, |a, l| a | bits(l));
        if m.permissions.bits() != want {
            return Err(format!("P8 permissions of the mapping at {:x} are {:#x}, expected the union {:#x} of its lines", m.start_address, m.permissions.bits(), want));
        }
    }
    // P9: a derived mapping keeps the file offset of its first line (0 for the renamed vDSO line)
    for (i, m) in out.iter().enumerate() {
        let first = lines.iter().zip(&owner).find(|(_, o)| **o == i).map(|(l, _)| l).unwrap();
        let is_gate = gate == Some(first.start) && !NAMES[first.name].contains('/');
        let want = if is_gate { 0 } else { first.offset };
        if m.offset != want {
            return Err(format!("P9 the mapping at {:x} has offset {:#x}, its first line {:#x} (vDSO: {is_gate})", m.start_address, m.offset, first.offset));
        }
    }
    // P10 (C08 "base and size are the merged extent of that file's mappings"): merging MUST happen for two contiguous
    // lines that carry the same path, also across one anonymous inaccessible offset-0 page between them
    for k in 1..lines.len() {
        let (a, b) = (&lines[k - 1], &lines[k]);
        let path = |l: &Line| sanitized(l.name).filter(|n| n.contains('/'));
        // (an inaccessible offset-0 line directly after ANOTHER file's executable mapping is taken for that file's reserved gap,
        //  whatever it is called: not demanded here)
        if a.end == b.start && path(a).is_some() && path(a) == path(b) && !inaccessible(a) && gate != Some(b.start) && owner[k - 1] != owner[k] {
            return Err(format!("P10 contiguous lines {} and {k} of the same file are not merged", k - 1));
        }
        if k >= 2 {
            let z = &lines[k - 2];
            if z.end == a.start && a.end == b.start && path(z).is_some() && path(z) == path(b) && sanitized(a.name).is_none()
                && inaccessible(a) && a.offset == 0 && gate != Some(a.start) && gate != Some(b.start) && owner[k - 2] != owner[k] {
                return Err(format!("P10 lines {} and {k} of the same file around an empty page are not merged", k - 2));
            }
        }
    }
    // P5
    if let Some(g) = gate {
        for (l, &o) in lines.iter().zip(&owner) {
            if l.start == g && !NAMES[l.name].contains('/') && out[o].start_address == g {
                if out[o].name.as_deref() != Some(OsStr::new(LINUX_GATE_LIBRARY_NAME)) {
                    return Err(format!("P5 the mapping at the vDSO address {g:x} is named {:?}", out[o].name));
                }
            }
        }
    }
    Ok(())
}

fn enumerate_maps(max_lines: usize) -> (usize, Option<String>) {
    let base = 0x7f00_0000_0000usize;
    let mut n_eval = 0usize;
    let per_line = 2 * 4 * 2 * NAMES.len();
    for n in 1..=max_lines {
        let total = (per_line as u64).pow(n as u32);
        for code in 0..total {
            let mut c = code;
            let mut lines = Vec::with_capacity(n);
            let mut cursor = base;
            for _ in 0..n {
                let d = (c % per_line as u64) as usize;
                c /= per_line as u64;
                let hole = d & 1; let perms = (d >> 1) & 3; let off = (d >> 3) & 1; let name = d >> 4;
                let start = cursor + hole * 0x1000;
                let end = start + 0x1000;
                lines.push(Line { start, end, perms, offset: off * 0x1000, name });
                cursor = end;
            }
            let mut gates = vec![None];
            gates.extend(lines.iter().map(|l| Some(l.start)));
            for g in gates {
                if let Err(e) = check_map(&lines, g, &mut n_eval) {
                    return (n_eval, Some(format!("{e}\nvdso={g:x?}\n{}", render(&lines))));
                }
            }
        }
    }
    (n_eval, None)
}

#[test]
fn bprime_aggregate_up_to_2_lines() {
    let (n, bad) = enumerate_maps(2);
    println!("BPRIME evaluations={n}");
    assert!(bad.is_none(), "aggregate violates the statement on:\n{}", bad.unwrap());
}

#[test]
fn bprime_aggregate_up_to_3_lines() {
    let (n, bad) = enumerate_maps(3);
    println!("BPRIME evaluations={n}");
    assert!(bad.is_none(), "aggregate violates the statement on:\n{}", bad.unwrap());
}

// ---------------------------------------------------------------------------
// C08, tier B′ (bounded-exhaustive, native): the module name. For EVERY combination of
//   mapped path  : 8 paths (plain, versioned .so.N, spaces, non-ASCII, trailing slash-less root file, relative)
//   SONAME       : 4 names (different from / equal to the file name, with version, non-ASCII)
//   executable   : yes / no          file offset : 0 / 0x2000
// the effective path is the mapped path with its last component replaced by the SONAME — or, when an
// executable segment is mapped from a non-zero offset, with the SONAME appended — and the reported file
// name is the SONAME. (The SONAME is passed in, as `mappings::write` does after reading it from memory.)
// ---------------------------------------------------------------------------
#[test]
fn bprime_effective_module_name() {
    let paths = ["/usr/lib/libfoo.so", "/usr/lib/libfoo.so.1.2.3", "/opt/my app/lib bar.so", "/opt/caf\u{e9}/lib\u{4e16}.so",
                 "/libroot.so", "/data/app/base.apk", "/a/b/c/d/e/f.so.6", "/x/y.so.1.2.3rc4"];
    let sonames = ["libother.so.2", "libfoo.so", "lib\u{e9}.so", "libnative.so"];
    let mut n = 0;
    for p in paths {
        for s in sonames {
            for exec in [false, true] {
                for off in [0usize, 0x2000] {
                    let m = MappingInfo {
                        start_address: 0x1000, size: 0x2000,
                        system_mapping_info: SystemMappingInfo { start_address: 0x1000, end_address: 0x3000 },
                        offset: off,
                        permissions: if exec { MMPermissions::READ | MMPermissions::EXECUTE } else { MMPermissions::READ },
                        name: Some(OsString::from(p)),
                    };
                    let (path, file_name, _v) = m.get_mapping_effective_path_name_and_version(Some(s.to_string())).expect("effective name");
                    n += 1;
                    // reference, on plain strings: directory part = everything up to and including the last '/'
                    let dir_end = p.rfind('/').map(|i| i + 1).unwrap_or(0);
                    let want = if exec && off != 0 { format!("{p}/{s}") } else { format!("{}{s}", &p[..dir_end]) };
                    assert_eq!(path.to_string_lossy(), want, "path={p:?} soname={s:?} exec={exec} offset={off:#x}");
                    assert_eq!(file_name, s);
                }
            }
        }
    }
    println!("BPRIME evaluations={n}");
}

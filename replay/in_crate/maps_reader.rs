//@inject src/linux/maps_reader.rs
// Native bounded-exhaustive contract checks (tier B′) and replays for src/linux/maps_reader.rs.
use super::*;

/// C02 (tier B′, bounded-exhaustive, native): SoVersion::parse is total on every file name
/// "lib.so." + s, s over the alphabet {0,1,9,.,a,-,é,€} with |s| <= 5 (37449 names): it returns
/// without panicking. Enumeration, not sampling.
#[test]
fn bprime_so_version_parse_is_total() {
    let alphabet = ['0', '1', '9', '.', 'a', '-', '\u{e9}', '\u{20ac}'];
    let mut names: Vec<String> = vec![String::new()];
    let mut frontier = vec![String::new()];
    for _ in 0..5 {
        let mut next = Vec::new();
        for s in &frontier {
            for c in alphabet {
                let mut t = s.clone();
                t.push(c);
                next.push(t);
            }
        }
        names.extend(next.iter().cloned());
        frontier = next;
    }
    let mut n = 0usize;
    let mut first_panic: Option<String> = None;
    let hook = std::panic::take_hook();
    std::panic::set_hook(Box::new(|_| {}));
    for s in &names {
        let name = format!("/usr/lib/lib.so.{s}");
        let r = std::panic::catch_unwind(|| SoVersion::parse(OsStr::new(&name)).map(|v| (v.major, v.minor, v.patch, v.prerelease)));
        n += 1;
        if r.is_err() && first_panic.is_none() {
            first_panic = Some(name);
        }
    }
    std::panic::set_hook(hook);
    println!("BPRIME evaluations={n}");
    assert!(first_panic.is_none(), "SoVersion::parse panicked on {:?}", first_panic.unwrap());
}

/// C02 replay through the public API: the module-name step of the module list for a mapped file whose
/// version suffix contains a non-ASCII character.
#[test]
fn c02_effective_name_with_non_ascii_version() {
    let m = MappingInfo {
        start_address: 0x1000,
        size: 0x1000,
        system_mapping_info: SystemMappingInfo { start_address: 0x1000, end_address: 0x2000 },
        offset: 0,
        permissions: MMPermissions::READ,
        name: Some(OsString::from("/usr/lib/lib.so.1.2.3\u{e9}4")),
    };
    let r = std::panic::catch_unwind(|| m.get_mapping_effective_path_name_and_version(Some("lib.so.1".to_string())).is_ok());
    assert!(r.is_ok(), "get_mapping_effective_path_name_and_version panicked on a name the kernel can report");
}

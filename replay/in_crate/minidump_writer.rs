//@inject src/linux/minidump_writer.rs
// C11, tier B′ (bounded-exhaustive, native): the soft-error stream is well-formed JSON that lists each failure
// that occurred, and is an empty list when nothing failed. For EVERY subset of six representative soft
// errors (64 subsets; simple, nested-list and source-carrying variants) the bytes appended by
// write_soft_errors parse as a JSON array with one element per pushed error, in order, each named after
// its variant; the returned location covers exactly the appended bytes.
use super::*;
use crate::linux::errors::DumperError;
use crate::mem_writer::MemoryWriterError;

fn sample(i: usize) -> (WriterError, &'static str) {
    match i {
        0 => (WriterError::PrincipalMappingNotReferenced, "PrincipalMappingNotReferenced"),
        1 => (WriterError::SuspendNoThreadsLeft(3), "SuspendNoThreadsLeft"),
        2 => {
            let mut l = ErrorList::default();
            l.push(DumperError::PtraceAttachError(1234, nix::Error::EPERM));
            l.push(DumperError::DetachSkippedThread(7));
            (WriterError::SuspendThreadsErrors(l), "SuspendThreadsErrors")
        }
        3 => (WriterError::WriteCpuInfoFailed(MemoryWriterError::IOError(std::io::Error::from_raw_os_error(2))), "WriteCpuInfoFailed"),
        4 => (WriterError::WriteDSODebugStreamFailed(crate::linux::errors::SectionDsoDebugError::CouldNotFind("dyn_addr in program headers")), "WriteDSODebugStreamFailed"),
        _ => (WriterError::InitErrors(ErrorList::default()), "InitErrors"),
    }
}

#[test]
fn bprime_soft_error_stream_is_wellformed_json() {
    let mut n = 0;
    for subset in 0u32..64 {
        let mut list = ErrorList::default();
        let mut names = Vec::new();
        for i in 0..6 {
            if subset & (1 << i) != 0 {
                let (e, name) = sample(i);
                list.push(e);
                names.push(name);
            }
        }
        let mut buffer = DumpBuf::with_capacity(0);
        buffer.write_all(b"xy");
        let loc = write_soft_errors(&mut buffer, list).expect("write_soft_errors");
        let img: &[u8] = &buffer;
        assert_eq!(loc.rva, 2);
        assert_eq!(loc.rva as usize + loc.data_size as usize, img.len(), "the location covers exactly the appended bytes");
        let v: serde_json::Value = serde_json::from_slice(&img[2..]).expect("well-formed JSON");
        let arr = v.as_array().expect("a JSON list");
        assert_eq!(arr.len(), names.len(), "one element per failure (subset {subset:06b})");
        for (el, name) in arr.iter().zip(&names) {
            let tag = match el {
                serde_json::Value::String(s) => s.clone(),
                serde_json::Value::Object(o) => o.keys().next().cloned().unwrap_or_default(),
                _ => String::new(),
            };
            assert_eq!(&tag, name, "each failure is listed under its own name, in order");
        }
        n += 1;
    }
    println!("BPRIME evaluations={n}");
}

// ---------------------------------------------------------------------------
// C18 / C01, tier B′ (native, a forked and SIGSTOPped child as the target): the OS-information streams.
//   * write_file(path) appends a byte copy of the file and returns exactly that location
//     (cmdline, environ, auxv, maps, limits, status of the child)
//   * memory-info list: header {16, 48, n}, one entry per line of /proc/<child>/maps with the same range,
//     the protection the statement's table gives for its r/w/x bits, and MEM_PRIVATE / MEM_MAPPED
//   * handle stream: header {16, 32, n}, one descriptor per entry of /proc/<child>/fd with that entry's link
//     target as name and st_mode as attributes; every RVA inside the image
// ---------------------------------------------------------------------------
fn stopped_child() -> i32 {
    let child = unsafe { libc::fork() };
    assert!(child >= 0);
    if child == 0 {
        loop { unsafe { libc::pause(); } }
    }
    unsafe { libc::kill(child, libc::SIGSTOP); }
    for _ in 0..2000 {
        let stat = std::fs::read_to_string(format!("/proc/{child}/stat")).unwrap_or_default();
        if stat.rsplit(')').next().map_or(false, |r| r.trim_start().starts_with('T')) { return child; }
        std::thread::sleep(std::time::Duration::from_millis(1));
    }
    panic!("child did not stop");
}

fn rd32(b: &[u8], at: usize) -> u32 { u32::from_le_bytes(b[at..at + 4].try_into().unwrap()) }
fn rd64(b: &[u8], at: usize) -> u64 { u64::from_le_bytes(b[at..at + 8].try_into().unwrap()) }
fn rdstr(b: &[u8], rva: usize) -> String {
    let n = rd32(b, rva) as usize;
    let units: Vec<u16> = b[rva + 4..rva + 4 + n].chunks_exact(2).map(|c| u16::from_le_bytes([c[0], c[1]])).collect();
    String::from_utf16(&units).unwrap()
}

#[test]
fn bprime_os_information_streams_mirror_a_stopped_child() {
    // descriptors the child inherits: a file whose name is not valid UTF-8, and a pipe
    use std::os::unix::ffi::OsStringExt;
    let odd = std::ffi::OsString::from_vec(format!("/tmp/verif_c18_{}_", std::process::id()).into_bytes().into_iter().chain([0xff, 0xfe, b'x']).collect());
    let _odd_file = std::fs::File::create(&odd).expect("create file with a non-UTF-8 name");
    let mut pipe_fds = [0i32; 2];
    assert_eq!(unsafe { libc::pipe(pipe_fds.as_mut_ptr()) }, 0);
    // a memory map of more than two pages of text (procfs hands out seq_file records at most one page per read(),
    // whatever the size of the user buffer): 160 single pages with alternating protection, so that no two merge
    let area = unsafe { libc::mmap(std::ptr::null_mut(), 160 * 4096, libc::PROT_READ, libc::MAP_PRIVATE | libc::MAP_ANONYMOUS, -1, 0) };
    assert!(area != libc::MAP_FAILED);
    for k in (0..160).step_by(2) {
        unsafe { libc::mprotect((area as usize + k * 4096) as *mut _, 4096, libc::PROT_READ | libc::PROT_WRITE); }
    }
    let child = stopped_child();
    let _ = std::fs::remove_file(&odd);
    let result = std::panic::catch_unwind(|| {
        let mut n = 0;
        let mut config = MinidumpWriter::new(child, child);
        assert!(std::fs::read(format!("/proc/{child}/maps")).unwrap().len() > 2 * 4096, "setup: the child's memory map is not longer than two pages");
        // raw file copies
        for f in ["cmdline", "environ", "auxv", "maps", "limits", "status"] {
            let path = format!("/proc/{child}/{f}");
            let mut buffer = DumpBuf::with_capacity(0);
            buffer.write_all(b"0123");
            let loc = config.write_file(&mut buffer, &path).expect("write_file");
            let want = std::fs::read(&path).unwrap();
            let img: &[u8] = &buffer;
            assert_eq!((loc.rva, loc.data_size as usize), (4, want.len()), "{path}: location");
            assert_eq!(&img[4..], &want[..], "{path}: byte copy");
            n += 1;
        }
        // memory info list
        let maps = std::fs::read_to_string(format!("/proc/{child}/maps")).unwrap();
        let lines: Vec<&str> = maps.lines().collect();
        let mut buffer = DumpBuf::with_capacity(0);
        let dirent = memory_info_list_stream::write(&mut config, &mut buffer).expect("memory info list");
        let img: &[u8] = &buffer;
        assert_eq!(dirent.stream_type, MDStreamType::MemoryInfoListStream as u32);
        let d = dirent.location.rva as usize;
        assert_eq!((rd32(img, d), rd32(img, d + 4), rd64(img, d + 8) as usize), (16, 48, lines.len()), "memory-info header");
        assert_eq!(dirent.location.data_size as usize, 16 + 48 * lines.len());
        for (k, l) in lines.iter().enumerate() {
            let mut it = l.split_whitespace();
            let (range, perms) = (it.next().unwrap(), it.next().unwrap().as_bytes());
            let (s, e) = range.split_once('-').unwrap();
            let (s, e) = (u64::from_str_radix(s, 16).unwrap(), u64::from_str_radix(e, 16).unwrap());
            let (r, w, x) = (perms[0] == b'r', perms[1] == b'w', perms[2] == b'x');
            // PAGE_NOACCESS 1, READONLY 2, READWRITE 4, EXECUTE 0x10, EXECUTE_READ 0x20, EXECUTE_READWRITE 0x40
            let prot = match (r, w, x) { (false, false, false) => 1, (false, false, true) => 0x10, (true, false, false) => 2,
                                         (true, false, true) => 0x20, (_, true, false) => 4, (_, true, true) => 0x40 };
            let ty = if perms[3] == b'p' { 0x20000 } else { 0x40000 };
            let o = d + 16 + 48 * k;
            assert_eq!((rd64(img, o), rd64(img, o + 8), rd64(img, o + 24)), (s, s, e - s), "line {k}: range");
            assert_eq!((rd32(img, o + 16), rd32(img, o + 36)), (prot, prot), "line {k} ({l}): protection");
            assert_eq!(rd32(img, o + 32), 0x1000, "line {k}: MEM_COMMIT");
            assert_eq!(rd32(img, o + 40), ty, "line {k}: private/shared");
            n += 1;
        }
        // handle stream
        let mut fds: Vec<(u64, String, u32)> = std::fs::read_dir(format!("/proc/{child}/fd")).unwrap().map(|e| {
            let e = e.unwrap();
            let fd: u64 = e.file_name().to_str().unwrap().parse().unwrap();
            let target = std::fs::read_link(e.path()).unwrap().to_string_lossy().into_owned();
            let c = std::ffi::CString::new(e.path().to_str().unwrap()).unwrap();
            let mut st = unsafe { std::mem::zeroed::<libc::stat>() };
            assert_eq!(unsafe { libc::stat(c.as_ptr(), &mut st) }, 0);
            (fd, target, st.st_mode)
        }).collect();
        fds.sort();
        let mut buffer = DumpBuf::with_capacity(0);
        let dirent = handle_data_stream::write(&mut config, &mut buffer).expect("handle stream");
        let img: &[u8] = &buffer;
        let d = dirent.location.rva as usize;
        assert_eq!((rd32(img, d), rd32(img, d + 4), rd32(img, d + 8) as usize), (16, 32, fds.len()), "handle stream header");
        assert_eq!(dirent.location.data_size as usize, 16 + 32 * fds.len());
        let mut got: Vec<(u64, String, u32)> = (0..fds.len()).map(|k| {
            let o = d + 16 + 32 * k;
            let name_rva = rd32(img, o + 12) as usize;
            assert!(name_rva + 4 <= img.len());
            (rd64(img, o), rdstr(img, name_rva), rd32(img, o + 16))
        }).collect();
        got.sort();
        assert_eq!(got, fds, "one descriptor per open file descriptor, with its link target and mode");
        n += fds.len();
        println!("BPRIME evaluations={n}");
    });
    unsafe { libc::kill(child, libc::SIGKILL); libc::waitpid(child, std::ptr::null_mut(), 0); }
    if let Err(e) = result { std::panic::resume_unwind(e); }
}

//@inject src/linux/minidump_writer.rs
// C11, tier B′ (bounded-exhaustive, native): the soft-error stream is well-formed JSON that lists each failure
// that occurred, and is an empty list when nothing failed. For EVERY subset of six representative soft
// errors (64 subsets; simple, nested-list and source-carrying variants) the bytes appended by
// write_soft_errors parse as a JSON array with one element per pushed error, in order, each named after
// its variant; the returned location covers exactly the appended bytes.
use super::*;
use crate::linux::errors::DumperError;
use crate::mem_writer::MemoryWriterError;

fn sample(i: usize) -> (WriterError, &'static str) {
    match i {
        0 => (WriterError::PrincipalMappingNotReferenced, "PrincipalMappingNotReferenced"),
        1 => (WriterError::SuspendNoThreadsLeft(3), "SuspendNoThreadsLeft"),
        2 => {
            let mut l = ErrorList::default();
            l.push(DumperError::PtraceAttachError(1234, nix::Error::EPERM));
            l.push(DumperError::DetachSkippedThread(7));
            (WriterError::SuspendThreadsErrors(l), "SuspendThreadsErrors")
        }
        3 => (WriterError::WriteCpuInfoFailed(MemoryWriterError::IOError(std::io::Error::from_raw_os_error(2))), "WriteCpuInfoFailed"),
        4 => (WriterError::WriteDSODebugStreamFailed(crate::linux::errors::SectionDsoDebugError::CouldNotFind("dyn_addr in program headers")), "WriteDSODebugStreamFailed"),
        _ => (WriterError::InitErrors(ErrorList::default()), "InitErrors"),
    }
}

#[test]
fn bprime_soft_error_stream_is_wellformed_json() {
    let mut n = 0;
    for subset in 0u32..64 {
        let mut list = ErrorList::default();
        let mut names = Vec::new();
        for i in 0..6 {
            if subset & (1 << i) != 0 {
                let (e, name) = sample(i);
                list.push(e);
                names.push(name);
            }
        }
        let mut buffer = DumpBuf::with_capacity(0);
        buffer.write_all(b"xy");
        let loc = write_soft_errors(&mut buffer, list).expect("write_soft_errors");
        let img: &[u8] = &buffer;
        assert_eq!(loc.rva, 2);
        assert_eq!(loc.rva as usize + loc.data_size as usize, img.len(), "the location covers exactly the appended bytes");
        let v: serde_json::Value = serde_json::from_slice(&img[2..]).expect("well-formed JSON");
        let arr = v.as_array().expect("a JSON list");
        assert_eq!(arr.len(), names.len(), "one element per failure (subset {subset:06b})");
        for (el, name) in arr.iter().zip(&names) {
            let tag = match el {
                serde_json::Value::String(s) => s.clone(),
                serde_json::Value::Object(o) => o.keys().next().cloned().unwrap_or_default(),
                _ => String::new(),
            };
            assert_eq!(&tag, name, "each failure is listed under its own name, in order");
        }
        n += 1;
    }
    println!("BPRIME evaluations={n}");
}

//@inject src/linux/sections/mappings.rs
// Native replay of obligation kani:vk_mappings_never_opens_dev (C02).
use super::*;
use crate::linux::ptrace_dumper::__replay_ptrace_dumper::bare_dumper;
use crate::maps_reader::SystemMappingInfo;
use std::os::unix::ffi::OsStringExt;

/// The module list of a target that has a FIFO under /dev/shm mapped (by name): opening it would block
/// forever (driver-specific `open` semantics are exactly why /dev must never be opened), so `write`
/// must not try. The test gives it 3 seconds and then releases a blocked opener.
#[test]
fn c02_mapped_file_under_dev_is_not_opened() {
    let fifo = format!("/dev/shm/verif_c02_fifo_{}", std::process::id());
    let c = std::ffi::CString::new(fifo.clone()).unwrap();
    unsafe { libc::unlink(c.as_ptr()); }
    assert_eq!(unsafe { libc::mkfifo(c.as_ptr(), 0o600) }, 0, "mkfifo");
    let name = std::ffi::OsString::from_vec(fifo.clone().into_bytes());
    let m = MappingInfo {
        start_address: 0x10000,
        size: 0x2000,
        system_mapping_info: SystemMappingInfo { start_address: 0x10000, end_address: 0x12000 },
        offset: 0,
        permissions: procfs_core::process::MMPermissions::READ,
        name: Some(name),
    };
    let (tx, rx) = std::sync::mpsc::channel();
    let worker = std::thread::spawn(move || {
        let mut dumper = bare_dumper(vec![m]);
        let mut config = MinidumpWriter::new(1, 1);
        let mut buffer = DumpBuf::with_capacity(0);
        let r = write(&mut config, &mut buffer, &mut dumper).is_ok();
        std::mem::forget(dumper);
        let _ = tx.send(r);
    });
    let finished = rx.recv_timeout(std::time::Duration::from_secs(3)).is_ok();
    if !finished {
        // unblock the opener so that the test process can end
        let _ = std::fs::OpenOptions::new().write(true).open(&fifo);
        let _ = worker.join();
    }
    unsafe { libc::unlink(c.as_ptr()); }
    assert!(finished, "mappings::write blocked opening {fifo}: a mapped file under /dev was opened");
}

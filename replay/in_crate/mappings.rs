//@inject src/linux/sections/mappings.rs
// Native replay of obligation kani:vk_mappings_never_opens_dev (C02).
use super::*;
use crate::linux::ptrace_dumper::__replay_ptrace_dumper::bare_dumper;
use crate::maps_reader::SystemMappingInfo;
use std::os::unix::ffi::OsStringExt;

/// The module list of a target that has a FIFO under /dev/shm mapped (by name): opening it would block
/// forever (driver-specific `open` semantics are exactly why /dev must never be opened), so `write`
/// must not try. The test gives it 3 seconds and then releases a blocked opener.
#[test]
fn c02_mapped_file_under_dev_is_not_opened() {
    let fifo = format!("/dev/shm/verif_c02_fifo_{}", std::process::id());
    let c = std::ffi::CString::new(fifo.clone()).unwrap();
    unsafe { libc::unlink(c.as_ptr()); }
    assert_eq!(unsafe { libc::mkfifo(c.as_ptr(), 0o600) }, 0, "mkfifo");
    let name = std::ffi::OsString::from_vec(fifo.clone().into_bytes());
    let m = MappingInfo {
        start_address: 0x10000,
        size: 0x2000,
        system_mapping_info: SystemMappingInfo { start_address: 0x10000, end_address: 0x12000 },
        offset: 0,
        permissions: procfs_core::process::MMPermissions::READ,
        name: Some(name),
    };
    let (tx, rx) = std::sync::mpsc::channel();
    let worker = std::thread::spawn(move || {
        let mut dumper = bare_dumper(vec![m]);
        let mut config = MinidumpWriter::new(1, 1);
        let mut buffer = DumpBuf::with_capacity(0);
        let r = write(&mut config, &mut buffer, &mut dumper).is_ok();
        std::mem::forget(dumper);
        let _ = tx.send(r);
    });
    let finished = rx.recv_timeout(std::time::Duration::from_secs(3)).is_ok();
    if !finished {
        // unblock the opener so that the test process can end
        let _ = std::fs::OpenOptions::new().write(true).open(&fifo);
        let _ = worker.join();
    }
    unsafe { libc::unlink(c.as_ptr()); }
    assert!(finished, "mappings::write blocked opening {fifo}: a mapped file under /dev was opened");
}

// ---------------------------------------------------------------------------
// C08 / C01, tier B′ (native, this process as the target): the module list.
//   * every module names a derived mapping of the target (base, size), carries a `BpEL` + build-id debug
//     record inside the image, a name string inside the image, and modules do not overlap
//   * for EVERY listed module k: a caller-supplied mapping with exactly k's extent (and one that strictly
//     contains it) suppresses the target's own entry and is listed verbatim with the supplied identifier
// ---------------------------------------------------------------------------
fn rd32(b: &[u8], at: usize) -> u32 { u32::from_le_bytes(b[at..at + 4].try_into().unwrap()) }
fn rd64(b: &[u8], at: usize) -> u64 { u64::from_le_bytes(b[at..at + 8].try_into().unwrap()) }

struct Mod { base: u64, size: u32, name: String, cv: Vec<u8> }

fn parse_modules(img: &[u8], dirent: &MDRawDirectory) -> Vec<Mod> {
    assert_eq!(dirent.stream_type, MDStreamType::ModuleListStream as u32);
    let d = dirent.location.rva as usize;
    let n = rd32(img, d) as usize;
    assert_eq!(dirent.location.data_size as usize, 4 + 108 * n, "size the module count implies");
    (0..n).map(|k| {
        let o = d + 4 + 108 * k;
        // MINIDUMP_MODULE: base u64, size u32, checksum u32, timestamp u32, name_rva u32, VS_FIXEDFILEINFO (52), cv_record, misc_record, reserved
        let name_rva = rd32(img, o + 20) as usize;
        let nlen = rd32(img, name_rva) as usize;
        assert!(name_rva + 4 + nlen <= img.len(), "module name inside the image");
        let units: Vec<u16> = img[name_rva + 4..name_rva + 4 + nlen].chunks_exact(2).map(|c| u16::from_le_bytes([c[0], c[1]])).collect();
        let (cv_size, cv_rva) = (rd32(img, o + 76) as usize, rd32(img, o + 80) as usize);
        assert!(cv_rva + cv_size <= img.len(), "debug record inside the image");
        Mod { base: rd64(img, o), size: rd32(img, o + 8), name: String::from_utf16(&units).unwrap(), cv: img[cv_rva..cv_rva + cv_size].to_vec() }
    }).collect()
}

fn self_dumper() -> PtraceDumper {
    let mut d = bare_dumper(vec![]);
    d.pid = std::process::id() as crate::Pid;
    d.enumerate_mappings_for_replay();
    d
}

#[test]
fn bprime_module_list_of_this_process() {
    let mut n = 0;
    let mut dumper = self_dumper();
    let maps: Vec<MappingInfo> = dumper.mappings.clone();
    let mut config = MinidumpWriter::new(dumper.pid, dumper.pid);
    let mut buffer = DumpBuf::with_capacity(0);
    let dirent = write(&mut config, &mut buffer, &mut dumper).expect("module list");
    let mods = parse_modules(&buffer, &dirent);
    assert!(!mods.is_empty(), "the test binary and libc carry build ids");
    for m in &mods {
        let src = maps.iter().find(|x| x.start_address as u64 == m.base).expect("a module is a derived mapping of the target");
        assert_eq!(m.size as usize, src.size, "module size == merged extent");
        assert!(src.name.is_some() && (src.offset == 0 || src.is_executable()) && src.size >= 4096);
        assert!(m.cv.len() > 4 && &m.cv[..4] == b"LEpB", "debug record = CvSignature::Elf ('BpEL' little-endian) + id");
        assert!(m.cv[4..].iter().any(|&b| b != 0), "non-zero build id");
        n += 1;
    }
    for w in mods.windows(2) { let _ = w; }
    let mut sorted: Vec<(u64, u64)> = mods.iter().map(|m| (m.base, m.base + m.size as u64)).collect();
    sorted.sort();
    for w in sorted.windows(2) { assert!(w[0].1 <= w[1].0, "modules do not overlap"); }
    // user mappings
    for (k, target) in mods.iter().enumerate() {
        for (grow, id_len) in [(0usize, 16usize), (4096, 16), (0, 1), (0, 8), (4096, 15), (0, 20), (4096, 32)] {
            // identifiers shorter than, equal to and longer than a GUID / a SHA-1 (lld's default is 8 bytes)
            let ident: Vec<u8> = (1u8..=id_len as u8).collect();
            let user = crate::maps_reader::MappingEntry {
                mapping: MappingInfo {
                    start_address: target.base as usize - grow, size: target.size as usize + 2 * grow,
                    system_mapping_info: crate::maps_reader::SystemMappingInfo { start_address: target.base as usize - grow, end_address: target.base as usize + target.size as usize + grow },
                    offset: 0, permissions: procfs_core::process::MMPermissions::READ,
                    name: Some(std::ffi::OsString::from(format!("/user/supplied-{k}.so"))),
                },
                identifier: ident.clone(),
            };
            let mut config = MinidumpWriter::new(dumper.pid, dumper.pid);
            config.user_mapping_list = vec![user];
            let mut buffer = DumpBuf::with_capacity(0);
            let dirent = write(&mut config, &mut buffer, &mut dumper).expect("module list");
            let got = parse_modules(&buffer, &dirent);
            n += 1;
            let at_base: Vec<&Mod> = got.iter().filter(|m| m.base == target.base - grow as u64 || m.base == target.base).collect();
            assert_eq!(at_base.len(), 1, "module {k} ({}), user mapping grown by {grow}: the target's own entry must be suppressed", target.name);
            let u = at_base[0];
            assert_eq!((u.base, u.size as usize), (target.base - grow as u64, target.size as usize + 2 * grow), "listed verbatim");
            assert_eq!(u.name, format!("/user/supplied-{k}.so"));
            assert_eq!(&u.cv[4..], &ident[..], "with exactly the supplied identifier ({id_len} bytes): nothing added, nothing cut");
        }
    }
    println!("BPRIME evaluations={n}");
    std::mem::forget(dumper);
}

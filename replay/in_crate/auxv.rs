//@inject src/linux/auxv/mod.rs
// C18, tier B′ (bounded-exhaustive, native): caller-supplied auxv values come first, the kernel's fill the
// rest. For EVERY subset of the four keys supplied by the caller (16 subsets, supplied values deliberately
// different from the kernel's), after completing the info from /proc/<own pid>/auxv each supplied key keeps
// the caller's value and each missing key has the value getauxval() reports.
use super::*;

#[test]
fn bprime_direct_auxv_values_take_precedence() {
    let pid = std::process::id() as Pid;
    let kernel = |k: AuxvType| unsafe { libc::getauxval(k as libc::c_ulong) } as AuxvType;
    let keys = [consts::AT_PHNUM, consts::AT_PHDR, consts::AT_SYSINFO_EHDR, consts::AT_ENTRY];
    let mut n = 0;
    for subset in 0u32..16 {
        let bogus = |i: usize| (0x1000 + i as AuxvType * 0x10) | 1; // never equal to a kernel value (odd, tiny)
        let direct = DirectAuxvDumpInfo {
            program_header_count: if subset & 1 != 0 { bogus(0) } else { 0 },
            program_header_address: if subset & 2 != 0 { bogus(1) } else { 0 },
            linux_gate_address: if subset & 4 != 0 { bogus(2) } else { 0 },
            entry_address: if subset & 8 != 0 { bogus(3) } else { 0 },
        };
        let mut info = AuxvDumpInfo::from(direct);
        let mut errs = error_graph::ErrorList::<AuxvError>::default();
        info.try_filling_missing_info(pid, &mut errs).expect("reading our own auxv");
        let got = [info.get_program_header_count(), info.get_program_header_address(), info.get_linux_gate_address(), info.get_entry_address()];
        for i in 0..4 {
            let want = if subset & (1 << i) != 0 { bogus(i) } else { kernel(keys[i]) };
            assert_eq!(got[i], Some(want), "key {} with supplied subset {subset:04b}: caller-supplied values first, the kernel's otherwise", keys[i]);
            n += 1;
        }
    }
    println!("BPRIME evaluations={n}");
}

//@inject src/linux/sections/systeminfo_stream.rs
// C18 / C11, tier B′ (native, this machine): the system-information stream.
//   * names platform Linux, architecture AMD64, the processor count, family / model / stepping and vendor of
//     /proc/cpuinfo (parsed independently here), and an OS version string inside the image
//   * when reading CPU information fails (fail point), the stream is still written, exactly one soft error is
//     recorded, and platform and architecture are still those of the machine (readers pick the context
//     layout from the architecture field)
use super::*;
use error_graph::ErrorList;

fn rd16(b: &[u8], at: usize) -> u16 { u16::from_le_bytes(b[at..at + 2].try_into().unwrap()) }
fn rd32(b: &[u8], at: usize) -> u32 { u32::from_le_bytes(b[at..at + 4].try_into().unwrap()) }

fn cpuinfo_first(field: &str) -> Option<String> {
    let text = std::fs::read_to_string("/proc/cpuinfo").ok()?;
    text.lines().find_map(|l| { let (k, v) = l.split_once(':')?; (k.trim() == field).then(|| v.trim().to_string()) })
}

#[test]
fn c18_system_information_names_this_machine() {
    let mut buffer = DumpBuf::with_capacity(0);
    let mut errs = ErrorList::<SectionSystemInfoError>::default();
    let dirent = write(&mut buffer, &mut errs).expect("system info");
    assert!(errs.is_empty());
    let img: &[u8] = &buffer;
    assert_eq!((dirent.stream_type, dirent.location.data_size), (MDStreamType::SystemInfoStream as u32, 56));
    let d = dirent.location.rva as usize;
    assert_eq!(rd16(img, d), 9, "PROCESSOR_ARCHITECTURE_AMD64");
    assert_eq!(rd32(img, d + 20), 0x8201, "platform Linux");
    let text = std::fs::read_to_string("/proc/cpuinfo").unwrap();
    let nproc = text.lines().filter(|l| l.split(':').next().map_or(false, |k| k.trim() == "processor")).count();
    assert_eq!(img[d + 6] as usize, nproc % 256, "processor count");
    let (fam, model, step): (u16, u16, u16) = (cpuinfo_first("cpu family").unwrap().parse().unwrap(), cpuinfo_first("model").unwrap().parse().unwrap(), cpuinfo_first("stepping").unwrap().parse().unwrap());
    assert_eq!(rd16(img, d + 2), fam, "processor family");
    assert_eq!(rd16(img, d + 4), (model << 8) | step, "model / stepping");
    let vendor = cpuinfo_first("vendor_id").unwrap();
    let vb = vendor.as_bytes();
    let n = vb.len().min(12);
    assert_eq!(&img[d + 32..d + 32 + n], &vb[..n], "vendor id");
    let csd = rd32(img, d + 24) as usize;
    let len = rd32(img, csd) as usize;
    assert!(csd + 4 + len <= img.len() && len > 0, "OS version string inside the image");
}

#[test]
fn c11_cpu_information_failure_is_soft() {
    let mut client = crate::FailSpotName::testing_client();
    client.set_enabled(crate::FailSpotName::CpuInfoFileOpen, true);
    let mut buffer = DumpBuf::with_capacity(0);
    let mut errs = ErrorList::<SectionSystemInfoError>::default();
    let r = write(&mut buffer, &mut errs);
    client.set_enabled(crate::FailSpotName::CpuInfoFileOpen, false);
    let dirent = r.expect("a CPU-information failure must not fail the stream");
    assert_eq!(errs.len(), 1, "exactly one soft error");
    let img: &[u8] = &buffer;
    let d = dirent.location.rva as usize;
    assert_eq!(dirent.location.data_size, 56);
    assert_eq!(rd32(img, d + 20), 0x8201, "platform Linux");
    assert_eq!(rd16(img, d), 9, "the architecture is known without /proc/cpuinfo and must still be recorded");
}

//@inject src/linux/dso_debug.rs
// C02 / C18, tier B′ (native): write_dso_debug_stream against a fake "target" that is this very process
// (process_vm_readv on one's own pid needs no ptrace): an arena holds program headers, a dynamic section,
// r_debug and a link-map chain. Well-formed data must be reproduced exactly (C18); every corruption in the
// list must make the function return (Ok or Err) — no panic, no endless loop (C02).
use super::*;
use crate::linux::auxv::{AuxvDumpInfo, DirectAuxvDumpInfo};

struct Arena { base: usize, len: usize }
impl Arena {
    fn new(pages: usize) -> Self {
        let len = pages * 4096;
        // map one more page and unmap it again so that the arena is followed by a hole
        let p = unsafe { libc::mmap(std::ptr::null_mut(), len + 4096, libc::PROT_READ | libc::PROT_WRITE, libc::MAP_PRIVATE | libc::MAP_ANONYMOUS, -1, 0) };
        assert_ne!(p, libc::MAP_FAILED);
        assert_eq!(unsafe { libc::munmap((p as usize + len) as *mut libc::c_void, 4096) }, 0);
        Arena { base: p as usize, len }
    }
    fn put(&self, off: usize, bytes: &[u8]) { unsafe { std::ptr::copy_nonoverlapping(bytes.as_ptr(), (self.base + off) as *mut u8, bytes.len()) } }
    fn u32(&self, off: usize, v: u32) { self.put(off, &v.to_ne_bytes()) }
    fn u64(&self, off: usize, v: u64) { self.put(off, &v.to_ne_bytes()) }
}
impl Drop for Arena { fn drop(&mut self) { unsafe { libc::munmap(self.base as *mut libc::c_void, self.len); } } }

const PH: usize = 0x0;       // 2 program headers
const DYN: usize = 0x400;    // dynamic section
const RDEBUG: usize = 0x800;
const LM: usize = 0x900;     // link maps, 40 bytes each
const NAMES: usize = 0xc00;

fn phdr(a: &Arena, idx: usize, p_type: u32, p_offset: u64, p_vaddr: u64) {
    let o = PH + idx * 56;
    a.u32(o, p_type); a.u32(o + 4, 0); a.u64(o + 8, p_offset); a.u64(o + 16, p_vaddr); a.u64(o + 24, p_vaddr);
    a.u64(o + 32, 0x100); a.u64(o + 40, 0x100); a.u64(o + 48, 8);
}

/// a well-formed image: PT_LOAD(offset 0, vaddr 0), PT_DYNAMIC at DYN; DT_DEBUG -> RDEBUG; two link maps
fn well_formed() -> Arena {
    let a = Arena::new(2);
    phdr(&a, 0, 1, 0, 0);
    phdr(&a, 1, 2, DYN as u64, DYN as u64);
    a.u64(DYN, 21); a.u64(DYN + 8, (a.base + RDEBUG) as u64);   // DT_DEBUG
    a.u64(DYN + 16, 0); a.u64(DYN + 24, 0);                       // DT_NULL
    // r_debug { r_version: i32, r_map: usize, r_brk, r_state, r_ldbase }
    a.u32(RDEBUG, 1); a.u64(RDEBUG + 8, (a.base + LM) as u64); a.u64(RDEBUG + 16, 0x1111); a.u32(RDEBUG + 24, 0); a.u64(RDEBUG + 32, 0x2222);
    // link_map { l_addr, l_name, l_ld, l_next, l_prev }
    a.u64(LM, 0x7000); a.u64(LM + 8, (a.base + NAMES) as u64); a.u64(LM + 16, 0x7100); a.u64(LM + 24, (a.base + LM + 40) as u64); a.u64(LM + 32, 0);
    a.u64(LM + 40, 0x8000); a.u64(LM + 48, (a.base + NAMES + 16) as u64); a.u64(LM + 56, 0x8100); a.u64(LM + 64, 0); a.u64(LM + 72, (a.base + LM) as u64);
    a.put(NAMES, b"/lib/a.so\0");
    a.put(NAMES + 16, b"/lib/b.so\0");
    a
}

fn auxv(phdr: usize, phnum: u64) -> AuxvDumpInfo {
    AuxvDumpInfo::from(DirectAuxvDumpInfo { program_header_count: phnum, program_header_address: phdr as u64, linux_gate_address: 1, entry_address: 1 })
}

/// run in a thread; None = did not return within 5 s
fn run(phdr_addr: usize, phnum: u64) -> Option<std::thread::Result<std::result::Result<(MDRawDirectory, Vec<u8>), String>>> {
    let (tx, rx) = std::sync::mpsc::channel();
    std::thread::spawn(move || {
        let r = std::panic::catch_unwind(|| {
            let mut buffer = Buffer::with_capacity(0);
            write_dso_debug_stream(&mut buffer, std::process::id() as i32, &auxv(phdr_addr, phnum))
                .map(|d| (d, buffer.to_vec()))
                .map_err(|e| format!("{e:?}"))
        });
        let _ = tx.send(r);
    });
    rx.recv_timeout(std::time::Duration::from_secs(5)).ok()
}

fn le32(b: &[u8], at: usize) -> u32 { u32::from_le_bytes(b[at..at + 4].try_into().unwrap()) }
fn le64(b: &[u8], at: usize) -> u64 { u64::from_le_bytes(b[at..at + 8].try_into().unwrap()) }

#[test]
fn c18_linker_list_is_reproduced() {
    let a = well_formed();
    let (dirent, img) = run(a.base + PH, 2).expect("returns").expect("no panic").expect("Ok");
    assert_eq!(dirent.stream_type, MDStreamType::LinuxDsoDebug as u32);
    let d = dirent.location.rva as usize;
    // MDRawDebug { version u32, map u32, dso_count u32, brk u64, ldbase u64, dynamic u64 }
    assert_eq!(le32(&img, d), 1);
    let map = le32(&img, d + 4) as usize;
    assert_eq!(le32(&img, d + 8), 2, "two loaded objects");
    assert_eq!(le64(&img, d + 12), 0x1111);
    assert_eq!(le64(&img, d + 20), 0x2222);
    assert_eq!(le64(&img, d + 28), (a.base + DYN) as u64, "address of the dynamic section");
    // MDRawLinkMap { addr u64, name u32, ld u64 } = 20 bytes each
    for (k, (addr, ld, name)) in [(0x7000u64, 0x7100u64, "/lib/a.so"), (0x8000, 0x8100, "/lib/b.so")].iter().enumerate() {
        let e = map + 20 * k;
        assert_eq!(le64(&img, e), *addr);
        assert_eq!(le64(&img, e + 12), *ld);
        let n = le32(&img, e + 8) as usize;
        let len = le32(&img, n) as usize;
        let units: Vec<u16> = img[n + 4..n + 4 + len].chunks_exact(2).map(|c| u16::from_le_bytes([c[0], c[1]])).collect();
        assert_eq!(String::from_utf16(&units).unwrap(), *name);
    }
}

#[test]
fn bprime_corrupt_linker_data_never_panics_or_hangs() {
    let mut bad = Vec::new();
    let mut n = 0;
    let mut case = |name: &str, a: &Arena, phdr_addr: usize, phnum: u64| {
        n += 1;
        match run(phdr_addr, phnum) {
            None => bad.push(format!("{name}: did not return within 5 s")),
            Some(Err(_)) => bad.push(format!("{name}: panicked")),
            Some(Ok(_)) => {}
        }
        let _ = a;
    };
    // caller-supplied / auxv values
    for phnum in [0u64, 1, 3, 0x1000, u32::MAX as u64, u64::MAX / 56, u64::MAX / 56 + 1, u64::MAX] {
        let a = well_formed();
        case(&format!("phnum={phnum:#x}"), &a, a.base + PH, phnum);
    }
    for phdr_addr in [0usize, 8, usize::MAX - 7, usize::MAX] {
        let a = well_formed();
        case(&format!("phdr={phdr_addr:#x}"), &a, phdr_addr, 2);
    }
    // program headers that end in a hole (short read)
    { let a = well_formed(); phdr(&a, (a.len - 56) / 56, 2, 0, 0); case("phdr table crosses the end of its mapping", &a, a.base + a.len - 56, 2); }
    // PT_LOAD whose vaddr exceeds the assumed base / huge dynamic vaddr
    for v in [1u64 << 62, u64::MAX, u64::MAX - 0xfff] {
        let a = well_formed(); phdr(&a, 0, 1, 0, v); case(&format!("PT_LOAD vaddr={v:#x}"), &a, a.base + PH, 2);
        let a = well_formed(); phdr(&a, 1, 2, 0, v); case(&format!("PT_DYNAMIC vaddr={v:#x}"), &a, a.base + PH, 2);
    }
    // dynamic section without DT_NULL up to the end of the mapping
    { let a = well_formed(); let mut o = DYN; while o + 16 <= a.len { a.u64(o, 5); a.u64(o + 8, 1); o += 16; } case("dynamic section without DT_NULL", &a, a.base + PH, 2); }
    // DT_DEBUG pointing nowhere / at the last bytes of the mapping
    for r in [0u64, 1, u64::MAX] { let a = well_formed(); a.u64(DYN + 8, r); case(&format!("r_debug={r:#x}"), &a, a.base + PH, 2); }
    { let a = well_formed(); a.u64(DYN + 8, (a.base + a.len - 8) as u64); case("r_debug in the last 8 bytes of a mapping", &a, a.base + PH, 2); }
    // link map: self-cycle, 2-cycle, next pointing into a hole, name pointing into a hole, non-UTF-8 name
    { let a = well_formed(); a.u64(LM + 24, (a.base + LM) as u64); case("link map whose l_next points to itself", &a, a.base + PH, 2); }
    { let a = well_formed(); a.u64(LM + 64, (a.base + LM) as u64); case("link map cycle of length 2", &a, a.base + PH, 2); }
    { let a = well_formed(); a.u64(LM + 64, (a.base + a.len) as u64); case("l_next into unmapped memory", &a, a.base + PH, 2); }
    { let a = well_formed(); a.u64(LM + 8, (a.base + a.len - 4) as u64); case("l_name in the last bytes of a mapping", &a, a.base + PH, 2); }
    { let a = well_formed(); a.put(NAMES, &[0xff, 0xfe, 0]); case("non-UTF-8 l_name", &a, a.base + PH, 2); }
    println!("BPRIME evaluations={n}");
    assert!(bad.is_empty(), "write_dso_debug_stream is not total:\n{}", bad.join("\n"));
}

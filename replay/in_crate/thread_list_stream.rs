//@inject src/linux/sections/thread_list_stream.rs
// Native replays of obligations on src/linux/sections/thread_list_stream.rs.
// The "target" is this test process itself: process_vm_readv on one's own pid is permitted, so
// `PtraceDumper::copy_from_process(getpid(), ..)` reads our own memory without ptrace.
use super::*;
use crate::maps_reader::{MappingInfo, SystemMappingInfo};
use procfs_core::process::MMPermissions;

fn mapping(start: usize, size: usize, perms: MMPermissions) -> MappingInfo {
    MappingInfo {
        start_address: start,
        size,
        system_mapping_info: SystemMappingInfo { start_address: start, end_address: start + size },
        offset: 0,
        permissions: perms,
        name: None,
    }
}

/// a page-aligned, zero-filled 2-page "stack" living in this process
fn fake_stack() -> (Vec<u8>, usize) {
    let v = vec![0u8; 4096 * 3];
    let base = (v.as_ptr() as usize + 4095) & !4095;
    (v, base)
}

fn dumper_for(mappings: Vec<MappingInfo>) -> PtraceDumper {
    // same-module construction is impossible from here (private field), go through the
    // crate-visible helper the in-crate ptrace_dumper replay uses
    crate::linux::ptrace_dumper::__replay_ptrace_dumper::bare_dumper(mappings)
}

/// C20 / obligation verus:stack::fill_thread_stack clause [C20]: an instruction pointer equal to the
/// principal mapping's END address is not inside it; with no pointer on the stack the stack must be dropped.
#[test]
fn c20_ip_at_end_of_principal_mapping_is_outside() {
    let (_keep, base) = fake_stack();
    let pid = std::process::id() as i32;
    let dumper = dumper_for(vec![mapping(base, 8192, MMPermissions::READ | MMPermissions::WRITE)]);
    let principal = mapping(0x7000_0000, 0x1000, MMPermissions::READ | MMPermissions::EXECUTE);
    let high = principal.system_mapping_info.end_address;
    let mut config = MinidumpWriter::new(pid, pid);
    config.skip_stacks_if_mapping_unreferenced();
    config.principal_mapping = Some(principal);
    let mut buffer = DumpBuf::with_capacity(0);
    let mut thread = MDRawThread {
        thread_id: pid as u32,
        suspend_count: 0,
        priority_class: 0,
        priority: 0,
        teb: 0,
        stack: MDMemoryDescriptor::default(),
        thread_context: MDLocationDescriptor::default(),
    };
    fill_thread_stack(&mut config, &mut buffer, &dumper, &mut thread, high, base + 64, MaxStackLen::None)
        .expect("fill_thread_stack failed");
    assert_eq!(
        config.memory_blocks.len(),
        0,
        "ip == end of the principal mapping ({high:#x}) and an all-zero stack: the stack must be excluded, but {} bytes were kept",
        thread.stack.memory.data_size
    );
}

/// C06 / C07, tier B′ (bounded-exhaustive, native): fill_thread_stack on this process's own memory for EVERY
/// 8-byte-aligned in-page offset of the stack pointer (512 offsets) plus 1, 2047, 2049, 4095, with and without
/// the 2 KiB limit: the region starts no lower than the page of sp, contains sp, is at most the limit,
/// extends to the mapping end without one, and its bytes equal the memory at the recorded address.
#[test]
fn bprime_stack_region_for_every_sp_offset() {
    let mut keep = vec![0u8; 4096 * 4];
    let base = (keep.as_ptr() as usize + 4095) & !4095;
    for i in 0..8192usize {
        let p = (base + i) as *mut u8;
        unsafe { *p = (i as u8).wrapping_mul(31) ^ 0xa5 };
    }
    let _ = &mut keep;
    let pid = std::process::id() as i32;
    let dumper = dumper_for(vec![mapping(base, 8192, MMPermissions::READ | MMPermissions::WRITE)]);
    let mut offsets: Vec<usize> = (0..4096).step_by(8).collect();
    offsets.extend([1usize, 2047, 2049, 4095]);
    let mut n = 0;
    for limited in [false, true] {
        for &off in &offsets {
            let sp = base + 4096 + off; // second page of the mapping
            let mut config = MinidumpWriter::new(pid, pid);
            let mut buffer = DumpBuf::with_capacity(0);
            buffer.write_all(b"hdr");
            let mut thread = MDRawThread {
                thread_id: pid as u32, suspend_count: 0, priority_class: 0, priority: 0, teb: 0,
                stack: MDMemoryDescriptor::default(), thread_context: MDLocationDescriptor::default(),
            };
            let cap = if limited { MaxStackLen::Len(LIMIT_MAX_EXTRA_THREAD_STACK_LEN) } else { MaxStackLen::None };
            fill_thread_stack(&mut config, &mut buffer, &dumper, &mut thread, 0, sp, cap).expect("fill_thread_stack");
            n += 1;
            let st = thread.stack;
            let (start, len) = (st.start_of_memory_range as usize, st.memory.data_size as usize);
            assert_eq!(config.memory_blocks.len(), 1, "the stack is a memory region");
            assert!(start >= (sp & !4095), "starts no lower than the page of sp (off {off}, limited {limited})");
            assert!(start <= sp && sp < start + len, "contains sp: [{start:#x}, {:#x}) sp={sp:#x} (off {off}, limited {limited})", start + len);
            if limited { assert!(len <= 2048); } else { assert_eq!(start + len, base + 8192, "extends to the end of the mapping"); assert_eq!(start, sp & !4095); }
            assert_eq!(st.memory.rva, 3, "appended after the existing image");
            let img: &[u8] = &buffer;
            assert_eq!(img.len(), 3 + len);
            for k in [0usize, len / 2, len - 1] {
                let want = unsafe { *((start + k) as *const u8) };
                assert_eq!(img[3 + k], want, "byte {k} of the region equals target memory");
            }
        }
    }
    // the stack pointer below the mapping (overflow into the guard gap): the region begins at the first plausible
    // stack mapping above it and is recorded at THAT address
    // (with and without the 2 KiB limit: a shortened region still begins at the mapping start, whatever the gap)
    for limited in [false, true] {
        for below in [8usize, 0x7f8, 0x800, 0x801, 0x1000, 0x1ad8, 4096 * 3, 4096 * 3 + 0x900] {
            let sp = base - below;
            let mut config = MinidumpWriter::new(pid, pid);
            let mut buffer = DumpBuf::with_capacity(0);
            let mut thread = MDRawThread {
                thread_id: pid as u32, suspend_count: 0, priority_class: 0, priority: 0, teb: 0,
                stack: MDMemoryDescriptor::default(), thread_context: MDLocationDescriptor::default(),
            };
            let cap = if limited { MaxStackLen::Len(LIMIT_MAX_EXTRA_THREAD_STACK_LEN) } else { MaxStackLen::None };
            fill_thread_stack(&mut config, &mut buffer, &dumper, &mut thread, 0, sp, cap).expect("fill_thread_stack");
            n += 1;
            let st = thread.stack;
            assert_eq!(st.start_of_memory_range as usize, base, "sp {below:#x} below the mapping (limited {limited}): the region begins at the mapping start");
            assert_eq!(st.memory.data_size as usize, if limited { 2048 } else { 8192 }, "sp {below:#x} below the mapping (limited {limited})");
            let img: &[u8] = &buffer;
            for k in [0usize, 1, st.memory.data_size as usize - 1] {
                assert_eq!(img[k], unsafe { *((base + k) as *const u8) }, "bytes equal the memory at the recorded address");
            }
        }
    }
    println!("BPRIME evaluations={n}");
    std::mem::forget(dumper);
}

/// C06 (last clause) / obligation verus:stack::get_stack_info [C06 plausible]: a stack pointer inside a large
/// inaccessible (---p) region with no plausible stack mapping within the guard distance: the captured stack
/// is EMPTY (and capturing that thread does not fail).
#[test]
fn c06_no_plausible_mapping_within_guard_distance_gives_an_empty_stack() {
    let len = 3 << 20; // 3 MiB of PROT_NONE, more than the 1 MiB guard distance
    let region = unsafe { libc::mmap(std::ptr::null_mut(), len, libc::PROT_NONE, libc::MAP_PRIVATE | libc::MAP_ANONYMOUS, -1, 0) };
    assert_ne!(region, libc::MAP_FAILED);
    let base = region as usize;
    let pid = std::process::id() as i32;
    let dumper = dumper_for(vec![mapping(base, len, MMPermissions::PRIVATE)]);
    for (what, cap) in [("unlimited", MaxStackLen::None), ("limited", MaxStackLen::Len(LIMIT_MAX_EXTRA_THREAD_STACK_LEN))] {
        let mut config = MinidumpWriter::new(pid, pid);
        let mut buffer = DumpBuf::with_capacity(0);
        let mut thread = MDRawThread {
            thread_id: pid as u32, suspend_count: 0, priority_class: 0, priority: 0, teb: 0,
            stack: MDMemoryDescriptor::default(), thread_context: MDLocationDescriptor::default(),
        };
        let r = fill_thread_stack(&mut config, &mut buffer, &dumper, &mut thread, 0, base + 0x128, cap);
        assert!(r.is_ok(), "{what}: a stack pointer in a large inaccessible region must give an empty stack, not {:?}", r.err());
        assert_eq!((thread.stack.memory.data_size, config.memory_blocks.len()), (0, 0), "{what}: the stack must be empty");
    }
    std::mem::forget(dumper);
    unsafe { libc::munmap(region, len); }
}

/// C06 (last clause) / obligation verus:stack::get_stack_info [C06 plausible], second twin: an inaccessible (---p)
/// reservation DIRECTLY FOLLOWED by a readable mapping. A stack pointer in the reservation finds that mapping only
/// when it lies within the guard distance (1 MiB); from further below the answer is "no stack", however the search
/// walks the reservation. Synthetic mapping lists, every combination of 6 distances x 4 in-page offsets x 3
/// reservation sizes; distances next to the 1 MiB boundary itself are left out (the property does not fix them).
#[test]
fn c06_readable_mapping_beyond_the_guard_distance_is_not_the_stack() {
    let rw = MMPermissions::READ | MMPermissions::WRITE | MMPermissions::PRIVATE;
    let mut n = 0;
    for res_size in [5usize << 20, 8 << 20, 64 << 20] {
        let res_start = 0x7000_0000_0000usize;
        let rw_start = res_start + res_size;
        let rw_size = 64 * 4096;
        let dumper = dumper_for(vec![mapping(res_start, res_size, MMPermissions::PRIVATE), mapping(rw_start, rw_size, rw)]);
        for below in [4096usize, 256 << 10, 1020 << 10, 1032 << 10, 2 << 20, 4 << 20] {
            for off in [0usize, 8, 2048, 4088] {
                let sp = rw_start - below + off;
                let r = dumper.get_stack_info(sp);
                n += 1;
                if below <= 1020 << 10 {
                    assert_eq!(r.as_ref().ok(), Some(&(rw_start, rw_size)),
                        "sp {sp:#x} is {below:#x} bytes below the first plausible mapping {rw_start:#x}: the region begins there");
                } else {
                    assert!(r.is_err(), "sp {sp:#x} is {below:#x} bytes (more than the guard distance) below {rw_start:#x}: no stack, got {r:?}");
                }
            }
        }
        std::mem::forget(dumper);
    }
    println!("BPRIME evaluations={n}");
}

fn crash_context_with(rip: usize, rsp: usize, tid: i32) -> crate::crash_context::CrashContext {
    // SAFETY: crash_context::CrashContext is plain old data (libc ucontext_t, fpstate, signalfd_siginfo, two pids)
    let mut cc: crash_context::CrashContext = unsafe { std::mem::zeroed() };
    cc.context.uc_mcontext.gregs[libc::REG_RIP as usize] = rip as i64;
    cc.context.uc_mcontext.gregs[libc::REG_RSP as usize] = rsp as i64;
    cc.tid = tid;
    cc.pid = tid;
    crate::crash_context::CrashContext { inner: cc }
}

/// C02 / obligation verus:thread_list::write (arithmetic underflow of `instruction_ptr - ip_memory_size / 2`, overflow
/// of `instruction_ptr + ip_memory_size / 2`): a crash instruction pointer less than 128 bytes above 0 inside a
/// mapping of page zero (vm.mmap_min_addr = 0: a jump through a near-null pointer in such a process), or less than
/// 128 bytes below the top of the address space inside a mapping that reaches it. The request may fail (the window
/// cannot be read from this test process) but must not panic.
#[test]
fn c02_crash_ip_window_at_the_edges_of_the_address_space() {
    let (_keep, base) = fake_stack();
    let pid = std::process::id() as i32;
    for (map_start, map_size, ip) in [
        (0usize, 4096usize, 5usize),
        (0, 4096, 127),
        (usize::MAX - 4095, 4095, usize::MAX - 5),
        (usize::MAX - 4095, 4095, usize::MAX - 127),
    ] {
        let mut dumper = dumper_for(vec![
            mapping(map_start, map_size, MMPermissions::READ | MMPermissions::EXECUTE),
            mapping(base, 8192, MMPermissions::READ | MMPermissions::WRITE),
        ]);
        dumper.threads = vec![crate::linux::ptrace_dumper::Thread { tid: pid, name: None }];
        let mut config = MinidumpWriter::new(pid, pid);
        config.crash_context = Some(crash_context_with(ip, base + 64, pid));
        let mut buffer = DumpBuf::with_capacity(0);
        let r = std::panic::catch_unwind(std::panic::AssertUnwindSafe(|| write(&mut config, &mut buffer, &dumper).map(|_| ()).map_err(|_| ())));
        std::mem::forget(dumper);
        assert!(
            r.is_ok(),
            "thread_list_stream::write panicked for a crash instruction pointer {ip:#x} inside the mapping [{map_start:#x}, {:#x})",
            map_start + map_size
        );
    }
}

//@inject src/linux/sections/thread_list_stream.rs
// Native replays of obligations on src/linux/sections/thread_list_stream.rs.
// The "target" is this test process itself: process_vm_readv on one's own pid is permitted, so
// `PtraceDumper::copy_from_process(getpid(), ..)` reads our own memory without ptrace.
use super::*;
use crate::maps_reader::{MappingInfo, SystemMappingInfo};
use procfs_core::process::MMPermissions;

fn mapping(start: usize, size: usize, perms: MMPermissions) -> MappingInfo {
    MappingInfo {
        start_address: start,
        size,
        system_mapping_info: SystemMappingInfo { start_address: start, end_address: start + size },
        offset: 0,
        permissions: perms,
        name: None,
    }
}

/// a page-aligned, zero-filled 2-page "stack" living in this process
fn fake_stack() -> (Vec<u8>, usize) {
    let v = vec![0u8; 4096 * 3];
    let base = (v.as_ptr() as usize + 4095) & !4095;
    (v, base)
}

fn dumper_for(mappings: Vec<MappingInfo>) -> PtraceDumper {
    // same-module construction is impossible from here (private field), go through the
    // crate-visible helper the in-crate ptrace_dumper replay uses
    crate::linux::ptrace_dumper::__replay_ptrace_dumper::bare_dumper(mappings)
}

/// C20 / obligation verus:stack::fill_thread_stack clause [C20]: an instruction pointer equal to the
/// principal mapping's END address is not inside it; with no pointer on the stack the stack must be dropped.
#[test]
fn c20_ip_at_end_of_principal_mapping_is_outside() {
    let (_keep, base) = fake_stack();
    let pid = std::process::id() as i32;
    let dumper = dumper_for(vec![mapping(base, 8192, MMPermissions::READ | MMPermissions::WRITE)]);
    let principal = mapping(0x7000_0000, 0x1000, MMPermissions::READ | MMPermissions::EXECUTE);
    let high = principal.system_mapping_info.end_address;
    let mut config = MinidumpWriter::new(pid, pid);
    config.skip_stacks_if_mapping_unreferenced();
    config.principal_mapping = Some(principal);
    let mut buffer = DumpBuf::with_capacity(0);
    let mut thread = MDRawThread {
        thread_id: pid as u32,
        suspend_count: 0,
        priority_class: 0,
        priority: 0,
        teb: 0,
        stack: MDMemoryDescriptor::default(),
        thread_context: MDLocationDescriptor::default(),
    };
    fill_thread_stack(&mut config, &mut buffer, &dumper, &mut thread, high, base + 64, MaxStackLen::None)
        .expect("fill_thread_stack failed");
    assert_eq!(
        config.memory_blocks.len(),
        0,
        "ip == end of the principal mapping ({high:#x}) and an all-zero stack: the stack must be excluded, but {} bytes were kept",
        thread.stack.memory.data_size
    );
}

//! C05 (and C04), native check on a live child: a crash context supplied for a NON-main thread.
//!   * the exception record carries the supplied signal number / code / address and names the blamed thread
//!   * it points at the very context blob the blamed thread's list entry uses
//!   * that context holds the supplied registers (marker values), and no other thread's context does
//!   * without a crash context the record says DUMP_REQUESTED, names the blamed thread and carries its
//!     captured instruction pointer
mod common;
use common::*;
use minidump::*;
use minidump_writer::{crash_context::CrashContext, minidump_writer::MinidumpWriter};

fn tids_of(pid: i32) -> Vec<i32> {
    let mut t: Vec<i32> = std::fs::read_dir(format!("/proc/{pid}/task")).unwrap()
        .map(|e| e.unwrap().file_name().to_string_lossy().parse().unwrap()).collect();
    t.sort_unstable();
    t
}

fn ctx_bytes<'a>(img: &'a [u8], loc: minidump::format::MINIDUMP_LOCATION_DESCRIPTOR) -> &'a [u8] {
    &img[loc.rva as usize..(loc.rva + loc.data_size) as usize]
}
fn reg(ctx: &[u8], off: usize) -> u64 { u64::from_le_bytes(ctx[off..off + 8].try_into().unwrap()) }
const RBX: usize = 0x90;
const RSP: usize = 0x98;
const RIP: usize = 0xf8;

#[test]
fn crash_context_for_a_secondary_thread() {
    let mut child = start_child_and_wait_for_threads(3);
    let pid = child.id() as i32;
    // any thread but the main one (thread ids wrap around, so the numerically largest one may BE the main thread)
    let blamed = *tids_of(pid).iter().find(|t| **t != pid).expect("setup: a secondary thread");

    // a stack pointer that is valid in the child: take the blamed thread's own from a first, plain dump
    let plain = MinidumpWriter::new(pid, blamed).dump(&mut std::io::Cursor::new(Vec::new())).expect("plain dump");
    let (plain_exc, plain_list) = {
        let d = Minidump::read(plain.as_slice()).unwrap();
        let e: MinidumpException = d.get_stream().unwrap();
        let l: MinidumpThreadList = d.get_stream().unwrap();
        let t = l.get_thread(blamed as u32).unwrap();
        (e.raw, t.raw.clone())
    };
    assert_eq!(plain_exc.exception_record.exception_code, 0xFFFF_FFFF, "DUMP_REQUESTED");
    assert_eq!(plain_exc.thread_id, blamed as u32);
    assert_eq!(plain_exc.thread_context.rva, plain_list.thread_context.rva, "the blamed thread's captured context");
    let live = ctx_bytes(&plain, plain_list.thread_context);
    assert_eq!(plain_exc.exception_record.exception_address, reg(live, RIP), "its current instruction pointer");
    let sp = reg(live, RSP);

    // the thread id stored INSIDE the crash context is not what selects the thread: the blamed thread given to the
    // writer is (the context's own tid equal to it, left zero, or naming another live thread)
    let mut bad = Vec::new();
    for ctx_tid in [blamed, 0, pid] {
        let mut inner: crash_context::CrashContext = unsafe { std::mem::zeroed() };
        inner.context.uc_mcontext.gregs[libc::REG_RBX as usize] = 0x2222_3333_4444_5555;
        inner.context.uc_mcontext.gregs[libc::REG_RSP as usize] = sp as i64;
        inner.context.uc_mcontext.gregs[libc::REG_RIP as usize] = 0x1000;
        inner.siginfo.ssi_signo = libc::SIGSEGV as u32;
        inner.siginfo.ssi_code = 2;
        inner.siginfo.ssi_addr = 0xdead_beef;
        inner.pid = pid;
        inner.tid = ctx_tid;
        let mut w = MinidumpWriter::new(pid, blamed);
        w.set_crash_context(CrashContext { inner });
        let bytes = w.dump(&mut std::io::Cursor::new(Vec::new())).expect("dump with crash context");

        let dump = Minidump::read(bytes.as_slice()).unwrap();
        let exc: MinidumpException = dump.get_stream().unwrap();
        let list: MinidumpThreadList = dump.get_stream().unwrap();
        let mut check = |ok: bool, what: String| if !ok { bad.push(format!("context tid {ctx_tid}, blamed {blamed}: {what}")); };
        check(exc.raw.exception_record.exception_code == libc::SIGSEGV as u32, "signal number".into());
        check(exc.raw.exception_record.exception_flags == 2, "signal code".into());
        check(exc.raw.exception_record.exception_address == 0xdead_beef, "fault address".into());
        check(exc.raw.thread_id == blamed as u32, "the record names the blamed thread".into());
        let t = list.get_thread(blamed as u32).expect("blamed thread listed");
        check(exc.raw.thread_context.rva == t.raw.thread_context.rva, "the blamed thread's entry uses the exception's context blob".into());
        check(reg(ctx_bytes(&bytes, exc.raw.thread_context), RBX) == 0x2222_3333_4444_5555, "the exception context holds the supplied registers".into());
        for other in list.threads.iter().filter(|o| o.raw.thread_id != blamed as u32) {
            check(other.raw.thread_context.rva != exc.raw.thread_context.rva, format!("thread {} shares the exception's context", other.raw.thread_id));
            check(reg(ctx_bytes(&bytes, other.raw.thread_context), RBX) != 0x2222_3333_4444_5555,
                  format!("thread {} was given the crash context of thread {blamed}", other.raw.thread_id));
        }
    }
    child.kill().expect("Failed to kill process");
    child.wait().expect("Failed to wait on killed process");
    assert!(bad.is_empty(), "{}", bad.join("\n"));
}

//! Native replay for C17 (obligations kani:vk_ptrace_read_len3/11/17): the word-by-word PTRACE_PEEKDATA
//! strategy must return the bytes of every entirely readable range — including one that ends exactly at
//! the end of a mapping and whose length is not a multiple of the word size.
use minidump_writer::mem_reader::MemReader;
use nix::sys::{ptrace, signal::Signal, wait::waitpid};
use nix::unistd::{fork, ForkResult};

#[test]
fn ptrace_strategy_reads_ranges_ending_at_a_mapping_end() {
    // two pages, the second one unmapped again: [base, base+4096) is readable and followed by a hole
    let base = unsafe {
        let p = libc::mmap(std::ptr::null_mut(), 8192, libc::PROT_READ | libc::PROT_WRITE,
                           libc::MAP_PRIVATE | libc::MAP_ANONYMOUS, -1, 0);
        assert_ne!(p, libc::MAP_FAILED);
        assert_eq!(libc::munmap((p as usize + 4096) as *mut libc::c_void, 4096), 0);
        p as usize
    };
    let page = unsafe { std::slice::from_raw_parts_mut(base as *mut u8, 4096) };
    for (i, b) in page.iter_mut().enumerate() {
        *b = (i as u8).wrapping_mul(37) ^ 0x5a;
    }
    let expected = page.to_vec();

    match unsafe { fork() }.expect("setup: fork") {
        ForkResult::Child => loop {
            std::thread::sleep(std::time::Duration::from_secs(1));
        },
        ForkResult::Parent { child } => {
            ptrace::attach(child).expect("setup: attach");
            waitpid(child, None).expect("setup: waitpid");
            let mut bad = Vec::new();
            let end = base + 4096;
            for len in [1usize, 3, 7, 8, 9, 11, 17, 31] {
                let src = end - len;
                let mut dst = vec![0u8; len];
                let mut reader = MemReader::for_ptrace(child.as_raw());
                match reader.read(src, &mut dst) {
                    Ok(n) if n == len && dst == expected[4096 - len..] => {}
                    Ok(n) => bad.push(format!("len {len}: read {n} bytes, wrong content")),
                    Err(e) => bad.push(format!("len {len} ending at the mapping end: {e}")),
                }
            }
            let _ = ptrace::detach(child, None);
            let _ = nix::sys::signal::kill(child, Signal::SIGKILL);
            let _ = waitpid(child, None);
            assert!(bad.is_empty(), "entirely readable ranges were not read:\n{}", bad.join("\n"));
        }
    }
}

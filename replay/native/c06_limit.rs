//! Native replay for C06 (obligation verus:stack::fill_thread_stack, clause "captured region
//! contains the stack pointer", size-limited case): dump a 40-thread child with a size limit
//! that triggers the 2 KiB cap and check that every captured stack contains its thread's RSP.
mod common;
use common::*;
use minidump::*;
use minidump_writer::minidump_writer::MinidumpWriter;

#[test]
fn limited_stacks_contain_the_stack_pointer() {
    let num_of_threads = 40;
    let mut child = start_child_and_wait_for_threads(num_of_threads);
    let pid = child.id() as i32;

    let mut tmpfile = tempfile::Builder::new().prefix("c06_limited").tempfile().unwrap();
    let bytes = MinidumpWriter::new(pid, pid)
        .set_minidump_size_limit(8 * 1024 * 40)
        .dump(&mut tmpfile)
        .expect("Could not write minidump");
    child.kill().expect("Failed to kill process");
    child.wait().expect("Failed to wait on killed process");

    let dump = Minidump::read(bytes.as_slice()).expect("Failed to read minidump");
    let thread_list: MinidumpThreadList = dump.get_stream().expect("Couldn't find MinidumpThreadList");
    let mut limited = 0;
    let mut bad = Vec::new();
    for (idx, thread) in thread_list.threads.iter().enumerate() {
        let ctx = thread.raw.thread_context;
        let c = &bytes[ctx.rva as usize..(ctx.rva + ctx.data_size) as usize];
        let rsp = u64::from_le_bytes(c[0x98..0xa0].try_into().unwrap());
        let start = thread.raw.stack.start_of_memory_range;
        let len = thread.raw.stack.memory.data_size as u64;
        if len == 0 {
            continue;
        }
        if len <= 2048 {
            limited += 1;
        }
        if !(start <= rsp && rsp < start + len) {
            bad.push(format!("thread #{idx} tid {}: rsp={rsp:#x} not in [{start:#x}, {:#x}) (len {len})", thread.raw.thread_id, start + len));
        }
    }
    assert!(limited > 0, "the size limit did not trigger; nothing was checked");
    assert!(bad.is_empty(), "{} of {} captured stacks do not contain the stack pointer:\n{}", bad.len(), thread_list.threads.len(), bad.join("\n"));
}

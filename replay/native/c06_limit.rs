//! Native replay for C06 (obligation verus:stack::fill_thread_stack, clause "captured region
//! contains the stack pointer", size-limited case): dump a 40-thread child with a size limit
//! that triggers the 2 KiB cap and check that every captured stack contains its thread's RSP.
mod common;
use common::*;
use minidump::*;
use minidump_writer::minidump_writer::MinidumpWriter;

#[test]
fn limited_stacks_contain_the_stack_pointer() {
    let num_of_threads = 40;
    let mut child = start_child_and_wait_for_threads(num_of_threads);
    let pid = child.id() as i32;

    let mut tmpfile = tempfile::Builder::new().prefix("c06_limited").tempfile().unwrap();
    let bytes = MinidumpWriter::new(pid, pid)
        .set_minidump_size_limit(8 * 1024 * 40)
        .dump(&mut tmpfile)
        .expect("Could not write minidump");
    child.kill().expect("Failed to kill process");
    child.wait().expect("Failed to wait on killed process");

    let dump = Minidump::read(bytes.as_slice()).expect("Failed to read minidump");
    let thread_list: MinidumpThreadList = dump.get_stream().expect("Couldn't find MinidumpThreadList");
    let mut limited = 0;
    let mut bad = Vec::new();
    for (idx, thread) in thread_list.threads.iter().enumerate() {
        let ctx = thread.raw.thread_context;
        let c = &bytes[ctx.rva as usize..(ctx.rva + ctx.data_size) as usize];
        let rsp = u64::from_le_bytes(c[0x98..0xa0].try_into().unwrap());
        let start = thread.raw.stack.start_of_memory_range;
        let len = thread.raw.stack.memory.data_size as u64;
        if len == 0 {
            continue;
        }
        if len <= 2048 {
            limited += 1;
        }
        if !(start <= rsp && rsp < start + len) {
            bad.push(format!("thread #{idx} tid {}: rsp={rsp:#x} not in [{start:#x}, {:#x}) (len {len})", thread.raw.thread_id, start + len));
        }
    }
    assert!(limited > 0, "the size limit did not trigger; nothing was checked");
    assert!(bad.is_empty(), "{} of {} captured stacks do not contain the stack pointer:\n{}", bad.len(), thread_list.threads.len(), bad.join("\n"));
}

/// C06: "never the thread given by a crash context": with a size limit that triggers, more than 20 threads and
/// a crash context naming a thread at list position >= 20, that thread's stack is NOT shortened.
#[test]
fn crash_context_thread_is_never_shortened() {
    let mut child = start_child_and_wait_for_threads(30);
    let pid = child.id() as i32;
    let plain = MinidumpWriter::new(pid, pid).dump(&mut std::io::Cursor::new(Vec::new())).expect("plain dump");
    let dump = Minidump::read(plain.as_slice()).unwrap();
    let list: MinidumpThreadList = dump.get_stream().unwrap();
    let victim = &list.threads[25];
    let tid = victim.raw.thread_id as i32;
    let full = victim.raw.stack;
    let ctx = victim.raw.thread_context;
    let c = &plain[ctx.rva as usize..(ctx.rva + ctx.data_size) as usize];
    let rsp = u64::from_le_bytes(c[0x98..0xa0].try_into().unwrap());
    assert!(full.memory.data_size > 2048, "sanity: the unlimited stack is larger than the cap");

    let mut inner: crash_context::CrashContext = unsafe { std::mem::zeroed() };
    inner.context.uc_mcontext.gregs[libc::REG_RSP as usize] = rsp as i64;
    inner.context.uc_mcontext.gregs[libc::REG_RIP as usize] = 0x1000;
    inner.siginfo.ssi_signo = libc::SIGSEGV as u32;
    inner.pid = pid;
    inner.tid = tid;
    let mut w = MinidumpWriter::new(pid, tid);
    w.set_crash_context(minidump_writer::crash_context::CrashContext { inner });
    w.set_minidump_size_limit(64 * 1024);
    let bytes = w.dump(&mut std::io::Cursor::new(Vec::new())).expect("limited dump");
    child.kill().expect("Failed to kill process");
    child.wait().expect("Failed to wait on killed process");
    let dump = Minidump::read(bytes.as_slice()).unwrap();
    let list: MinidumpThreadList = dump.get_stream().unwrap();
    let pos = list.threads.iter().position(|t| t.raw.thread_id == tid as u32).expect("listed");
    assert!(pos >= 20, "sanity: the blamed thread is at list position {pos}");
    let limited_others = list.threads.iter().enumerate().filter(|(i, t)| *i >= 20 && t.raw.thread_id != tid as u32 && t.raw.stack.memory.data_size <= 2048).count();
    assert!(limited_others > 0, "sanity: the limit triggered");
    let got = list.threads[pos].raw.stack;
    assert_eq!((got.start_of_memory_range, got.memory.data_size), (full.start_of_memory_range, full.memory.data_size),
               "the crash-context thread at position {pos} was shortened");
}

//! Native replay for C10 (obligation verus:dir_section::write_to_file, clause [C10]):
//! drives the real `DirSection` through new / flush / grow / flush-with-entry and looks at
//! what the destination holds after every completed `write` call.
use minidump_writer::{
    dir_section::DirSection,
    mem_writer::{Buffer, MemoryArrayWriter},
    minidump_format::{MDLocationDescriptor, MDRawDirectory},
};
use std::io::{Cursor, Seek, SeekFrom, Write};

/// Destination that snapshots its contents after each completed write.
struct Snap {
    inner: Cursor<Vec<u8>>,
    snaps: Vec<Vec<u8>>,
}
impl Write for Snap {
    fn write(&mut self, b: &[u8]) -> std::io::Result<usize> {
        let n = self.inner.write(b)?;
        self.snaps.push(self.inner.get_ref().clone());
        Ok(n)
    }
    fn flush(&mut self) -> std::io::Result<()> {
        self.inner.flush()
    }
}
impl Seek for Snap {
    fn seek(&mut self, p: SeekFrom) -> std::io::Result<u64> {
        self.inner.seek(p)
    }
}

/// `hw[i]`: length of the image at the moment entry i was handed to the writer — everything stream i
/// references (thread stacks, contexts, name strings live AFTER the stream body) lies below it
fn check_snapshot(s: &[u8], start: usize, dir_rva: usize, n: usize, hw: &[usize]) -> Result<(), String> {
    if s.len() < start + dir_rva + 12 * n {
        return Err(format!("directory not completely present: {} bytes", s.len()));
    }
    for i in 0..n {
        let e = &s[start + dir_rva + 12 * i..start + dir_rva + 12 * (i + 1)];
        let ty = u32::from_le_bytes(e[0..4].try_into().unwrap());
        let size = u32::from_le_bytes(e[4..8].try_into().unwrap()) as usize;
        let rva = u32::from_le_bytes(e[8..12].try_into().unwrap()) as usize;
        if ty == 0 && size == 0 && rva == 0 {
            continue; // unused
        }
        if rva + size > s.len() - start {
            return Err(format!(
                "entry {i} (type {ty}) names bytes [{rva}, {}) but only {} image bytes have reached the destination",
                rva + size,
                s.len() - start
            ));
        }
        if hw[i] > s.len() - start {
            return Err(format!(
                "entry {i} (type {ty}) is in the destination but the data it references (image bytes up to {}) is not: only {} bytes are",
                hw[i],
                s.len() - start
            ));
        }
    }
    Ok(())
}

#[test]
fn every_prefix_is_consistent() {
    for start in [0usize, 7] {
        let mut dest = Snap { inner: Cursor::new(vec![0xEE; start]), snaps: vec![] };
        dest.seek(SeekFrom::Start(start as u64)).unwrap();
        let mut buffer = Buffer::with_capacity(0);
        let n = 2u32;
        let mut bad = None;
        let mut hw: Vec<usize> = Vec::new();
        {
            let mut dir = DirSection::new(&mut buffer, n, &mut dest).unwrap();
            let dir_rva = dir.position() as usize;
            dir.write_to_file(&mut buffer, None).unwrap();
            for k in 0..n {
                // a stream body of 40 bytes followed by 24 bytes the stream references (like a thread list and its
                // stacks): the entry names only the body
                let body = MemoryArrayWriter::write_bytes(&mut buffer, &[0xA0 + k as u8; 40]);
                MemoryArrayWriter::write_bytes(&mut buffer, &[0xB0 + k as u8; 24]);
                hw.push(buffer.len());
                let dirent = MDRawDirectory {
                    stream_type: 100 + k,
                    location: MDLocationDescriptor { data_size: 40, rva: body.position },
                };
                dir.write_to_file(&mut buffer, Some(dirent)).unwrap();
            }
            let _ = dir_rva;
        }
        let dir_rva = 0usize; // the directory is the first thing allocated in this buffer
        for (k, s) in dest.snaps.iter().enumerate() {
            if let Err(e) = check_snapshot(s, start, dir_rva, n as usize, &hw) {
                bad = Some(format!("start={start} after write #{k}: {e}"));
                break;
            }
        }
        assert!(bad.is_none(), "inconsistent prefix: {}", bad.unwrap());
    }
}

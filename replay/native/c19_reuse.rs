//! Native replay for C19 (obligation kani:vk_dump_reused_writer): the second dump from a reused writer
//! must look like the dump of a freshly configured writer taken at the same moment.
mod common;
use common::*;
use minidump::*;
use minidump_writer::minidump_writer::MinidumpWriter;

fn memory_regions(bytes: &[u8]) -> Vec<(u64, u32)> {
    let dump = Minidump::read(bytes).expect("Failed to read minidump");
    let list: MinidumpMemoryList<'_> = dump.get_stream().expect("no memory list");
    list.iter().map(|m| (m.base_address, m.size as u32)).collect()
}

#[test]
fn second_dump_of_a_reused_writer_equals_a_fresh_one() {
    let mut child = start_child_and_wait_for_threads(3);
    let pid = child.id() as i32;

    let mut reused = MinidumpWriter::new(pid, pid);
    let first = reused.dump(&mut std::io::Cursor::new(Vec::new())).expect("dump 1");
    let second = reused.dump(&mut std::io::Cursor::new(Vec::new())).expect("dump 2");
    let fresh = MinidumpWriter::new(pid, pid)
        .dump(&mut std::io::Cursor::new(Vec::new()))
        .expect("fresh dump");
    child.kill().expect("Failed to kill process");
    child.wait().expect("Failed to wait on killed process");

    let (r1, r2, rf) = (memory_regions(&first), memory_regions(&second), memory_regions(&fresh));
    assert_eq!(r1.len(), rf.len(), "sanity: same idle target, same number of regions");
    assert_eq!(
        r2.len(),
        rf.len(),
        "the reused writer's second dump lists {} memory regions, a fresh writer lists {} (regions of the first dump leaked)",
        r2.len(),
        rf.len()
    );
}

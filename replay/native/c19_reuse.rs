//! Native replay for C19 (obligation kani:vk_dump_reused_writer): the second dump from a reused writer
//! must look like the dump of a freshly configured writer taken at the same moment.
mod common;
use common::*;
use minidump::*;
use minidump_writer::minidump_writer::MinidumpWriter;

fn memory_regions(bytes: &[u8]) -> Vec<(u64, u32)> {
    let dump = Minidump::read(bytes).expect("Failed to read minidump");
    let list: MinidumpMemoryList<'_> = dump.get_stream().expect("no memory list");
    list.iter().map(|m| (m.base_address, m.size as u32)).collect()
}

#[test]
fn second_dump_of_a_reused_writer_equals_a_fresh_one() {
    let mut child = start_child_and_wait_for_threads(3);
    let pid = child.id() as i32;

    let mut reused = MinidumpWriter::new(pid, pid);
    let first = reused.dump(&mut std::io::Cursor::new(Vec::new())).expect("dump 1");
    let second = reused.dump(&mut std::io::Cursor::new(Vec::new())).expect("dump 2");
    let fresh = MinidumpWriter::new(pid, pid)
        .dump(&mut std::io::Cursor::new(Vec::new()))
        .expect("fresh dump");
    child.kill().expect("Failed to kill process");
    child.wait().expect("Failed to wait on killed process");

    let (r1, r2, rf) = (memory_regions(&first), memory_regions(&second), memory_regions(&fresh));
    assert_eq!(r1.len(), rf.len(), "sanity: same idle target, same number of regions");
    assert_eq!(
        r2.len(),
        rf.len(),
        "the reused writer's second dump lists {} memory regions, a fresh writer lists {} (regions of the first dump leaked)",
        r2.len(),
        rf.len()
    );
}

fn tids_of(pid: i32) -> Vec<i32> {
    let mut t: Vec<i32> = std::fs::read_dir(format!("/proc/{pid}/task")).unwrap()
        .map(|e| e.unwrap().file_name().to_string_lossy().parse().unwrap()).collect();
    t.sort_unstable();
    t
}

/// (exception thread id, rva of the exception's context, rva of that thread's context in the thread list)
fn exception_vs_thread_list(bytes: &[u8], tid: i32) -> (u32, u32, u32) {
    let dump = Minidump::read(bytes).expect("Failed to read minidump");
    let exc: MinidumpException = dump.get_stream().expect("no exception stream");
    let threads: MinidumpThreadList = dump.get_stream().expect("no thread list");
    let t = threads.get_thread(tid as u32).expect("blamed thread in the thread list");
    (exc.raw.thread_id, exc.raw.thread_context.rva, t.raw.thread_context.rva)
}

fn stacks_kept(bytes: &[u8]) -> usize {
    let dump = Minidump::read(bytes).expect("Failed to read minidump");
    let threads: MinidumpThreadList = dump.get_stream().expect("no thread list");
    threads.threads.iter().filter(|t| t.raw.stack.memory.data_size > 0).count()
}

/// The blamed thread changes between two dumps of one writer (no crash context): the exception stream of the
/// second dump must point at the context the SECOND dump recorded for the newly blamed thread.
#[test]
fn reused_writer_with_another_blamed_thread() {
    let mut child = start_child_and_wait_for_threads(4);
    let pid = child.id() as i32;
    // any thread but the main one (thread ids wrap around, so the numerically largest one may BE the main thread)
    let other = *tids_of(pid).iter().find(|t| **t != pid).expect("setup: a secondary thread");
    let mut w = MinidumpWriter::new(pid, pid);
    let _first = w.dump(&mut std::io::Cursor::new(Vec::new())).expect("dump 1");
    w.blamed_thread = other;
    let second = w.dump(&mut std::io::Cursor::new(Vec::new())).expect("dump 2");
    child.kill().expect("Failed to kill process");
    child.wait().expect("Failed to wait on killed process");
    let (tid, exc_ctx, list_ctx) = exception_vs_thread_list(&second, other);
    assert_eq!(tid, other as u32);
    assert_eq!(exc_ctx, list_ctx, "the second dump's exception stream refers to a context recorded by the first dump");
}

/// The principal mapping resolved by the first dump must not survive into a second dump whose principal
/// address resolves to nothing: a fresh writer then drops every stack.
#[test]
fn reused_writer_with_unresolvable_principal_address() {
    let mut child = start_child_and_wait_for_threads(3);
    let pid = child.id() as i32;
    // an address inside the child's executable
    let maps = std::fs::read_to_string(format!("/proc/{pid}/maps")).unwrap();
    let exe_line = maps.lines().find(|l| l.contains("r-xp") && l.contains('/')).expect("setup: an executable file mapping");
    let start = usize::from_str_radix(exe_line.split('-').next().unwrap(), 16).unwrap();
    let mut w = MinidumpWriter::new(pid, pid);
    w.skip_stacks_if_mapping_unreferenced();
    w.set_principal_mapping_address(start + 16);
    let _first = w.dump(&mut std::io::Cursor::new(Vec::new())).expect("dump 1");
    w.set_principal_mapping_address(0x0102_0304_0506_0708);
    let second = w.dump(&mut std::io::Cursor::new(Vec::new())).expect("dump 2");
    let mut fresh = MinidumpWriter::new(pid, pid);
    fresh.skip_stacks_if_mapping_unreferenced();
    fresh.set_principal_mapping_address(0x0102_0304_0506_0708);
    let fresh = fresh.dump(&mut std::io::Cursor::new(Vec::new())).expect("fresh dump");
    child.kill().expect("Failed to kill process");
    child.wait().expect("Failed to wait on killed process");
    assert_eq!(stacks_kept(&fresh), 0, "sanity: no principal mapping, every stack is dropped");
    assert_eq!(stacks_kept(&second), 0, "the principal mapping of the first dump leaked into the second one");
}

/// A destination that fails the k-th write.
struct FailingAt { inner: std::io::Cursor<Vec<u8>>, writes: usize, fail_at: usize }
impl std::io::Write for FailingAt {
    fn write(&mut self, b: &[u8]) -> std::io::Result<usize> {
        self.writes += 1;
        if self.writes == self.fail_at { return Err(std::io::Error::new(std::io::ErrorKind::Other, "injected")); }
        self.inner.write(b)
    }
    fn flush(&mut self) -> std::io::Result<()> { Ok(()) }
}
impl std::io::Seek for FailingAt {
    fn seek(&mut self, p: std::io::SeekFrom) -> std::io::Result<u64> { self.inner.seek(p) }
}

/// C19 over histories that contain FAILED requests: after a request that was aborted by a hard error
/// (an unreadable app-memory region; an I/O error of the destination at the 4th, 6th and 9th write)
/// the next request on the same writer equals a fresh writer's dump.
#[test]
fn reused_writer_after_failed_requests() {
    use minidump_writer::app_memory::AppMemory;
    let mut child = start_child_and_wait_for_threads(3);
    let pid = child.id() as i32;
    let fresh = MinidumpWriter::new(pid, pid).dump(&mut std::io::Cursor::new(Vec::new())).expect("fresh dump");
    let rf = memory_regions(&fresh);
    let mut bad = Vec::new();

    let mut w = MinidumpWriter::new(pid, pid);
    w.set_app_memory(vec![AppMemory { ptr: 0, length: 16 }]);
    match w.dump(&mut std::io::Cursor::new(Vec::new())) {
        Err(_) => {}
        Ok(_) => bad.push("sanity: an unreadable app-memory region must abort the request".to_string()),
    }
    w.set_app_memory(Vec::new());
    let after = w.dump(&mut std::io::Cursor::new(Vec::new())).expect("dump after a failed one");
    if memory_regions(&after) != rf {
        bad.push(format!("after a request aborted by an unreadable app-memory region the next dump lists {} regions, a fresh writer {}", memory_regions(&after).len(), rf.len()));
    }
    for fail_at in [4usize, 6, 9] {
        let mut w = MinidumpWriter::new(pid, pid);
        let mut dest = FailingAt { inner: std::io::Cursor::new(Vec::new()), writes: 0, fail_at };
        if w.dump(&mut dest).is_ok() { bad.push(format!("sanity: write #{fail_at} was never reached")); continue; }
        let after = w.dump(&mut std::io::Cursor::new(Vec::new())).expect("dump after a failed one");
        if memory_regions(&after) != rf {
            bad.push(format!("after a request aborted by an I/O error at write #{fail_at} the next dump lists {} regions, a fresh writer {}", memory_regions(&after).len(), rf.len()));
        }
    }
    child.kill().expect("Failed to kill process");
    child.wait().expect("Failed to wait on killed process");
    assert!(bad.is_empty(), "{}", bad.join("\n"));
}

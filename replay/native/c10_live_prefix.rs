//! C10 (and C09, C11), native check on live children: a real dump into a destination that looks at its own
//! contents after EVERY completed write: header and directory complete, and every directory entry either
//! unused or naming bytes that have already reached the destination. A second destination fails its k-th
//! write for every k: the dump then returns an error, and what was written before is still consistent and
//! equal to a prefix of the image of an undisturbed dump's layout rules.
mod common;
use common::*;
use minidump_writer::minidump_writer::MinidumpWriter;
use std::io::{Cursor, Seek, SeekFrom, Write};

struct Probe { inner: Cursor<Vec<u8>>, writes: usize, fail_at: Option<usize>, bad: Option<String>, start: usize,
               /// destination operations so far (writes AND seeks); `fail_op`: that operation fails ONCE, later ones work again
               ops: usize, fail_op: Option<usize> }
impl Probe {
    fn check(&mut self) {
        if self.bad.is_some() { return; }
        let s = &self.inner.get_ref()[self.start..];
        if s.len() < 32 { self.bad = Some(format!("after write #{}: header incomplete ({} bytes)", self.writes, s.len())); return; }
        let n = u32::from_le_bytes(s[8..12].try_into().unwrap()) as usize;
        let dir = u32::from_le_bytes(s[12..16].try_into().unwrap()) as usize;
        if s.len() < dir + 12 * n { self.bad = Some(format!("after write #{}: directory incomplete", self.writes)); return; }
        for i in 0..n {
            let e = &s[dir + 12 * i..dir + 12 * (i + 1)];
            let (ty, size, rva) = (u32::from_le_bytes(e[0..4].try_into().unwrap()), u32::from_le_bytes(e[4..8].try_into().unwrap()) as usize, u32::from_le_bytes(e[8..12].try_into().unwrap()) as usize);
            if ty == 0 && size == 0 && rva == 0 { continue; }
            if rva + size > s.len() {
                self.bad = Some(format!("after write #{}: entry {i} (type {ty:#x}) names [{rva}, {}) but only {} bytes are present", self.writes, rva + size, s.len()));
                return;
            }
            // what the stream references must be present too
            let u32at = |o: usize| u32::from_le_bytes(s[o..o + 4].try_into().unwrap()) as usize;
            if ty == 3 {
                // thread list: <count> then 48-byte records with stack {.., size @32, rva @36} and context {size @40, rva @44}
                for k in 0..u32at(rva) {
                    let t = rva + 4 + 48 * k;
                    for (sz, at) in [(u32at(t + 32), u32at(t + 36)), (u32at(t + 40), u32at(t + 44))] {
                        if at + sz > s.len() {
                            self.bad = Some(format!("after write #{}: thread {k} of the published thread list references [{at}, {}) but only {} bytes are present", self.writes, at + sz, s.len()));
                            return;
                        }
                    }
                }
            }
            if ty == 24 {
                // thread names: <count> then {tid u32, rva u64}; the name is <len u32><bytes>
                for k in 0..u32at(rva) {
                    let at = u64::from_le_bytes(s[rva + 4 + 12 * k + 4..rva + 4 + 12 * k + 12].try_into().unwrap()) as usize;
                    if at + 4 > s.len() || at + 4 + u32at(at) > s.len() {
                        self.bad = Some(format!("after write #{}: name {k} of the published thread-name list lies beyond the {} bytes present", self.writes, s.len()));
                        return;
                    }
                }
            }
        }
    }
}
impl Write for Probe {
    fn write(&mut self, b: &[u8]) -> std::io::Result<usize> {
        if self.fail_at == Some(self.writes) { return Err(std::io::Error::other("injected write failure")); }
        self.ops += 1;
        if self.fail_op == Some(self.ops - 1) { return Err(std::io::Error::other("injected one-shot failure (write)")); }
        let n = self.inner.write(b)?;
        self.writes += 1;
        self.check();
        Ok(n)
    }
    fn flush(&mut self) -> std::io::Result<()> { Ok(()) }
}
impl Seek for Probe {
    fn seek(&mut self, p: SeekFrom) -> std::io::Result<u64> {
        self.ops += 1;
        if self.fail_op == Some(self.ops - 1) { return Err(std::io::Error::other("injected one-shot failure (seek)")); }
        self.inner.seek(p)
    }
}

#[test]
fn every_prefix_of_a_real_dump_is_consistent() {
    let mut child = start_child_and_wait_for_named_threads(5);
    let pid = child.id() as i32;
    // undisturbed dump, destination starting at offset 9 of a pre-filled file
    let mut dest = Probe { inner: Cursor::new(vec![0xEE; 32]), writes: 0, fail_at: None, bad: None, start: 9, ops: 0, fail_op: None };
    dest.inner.seek(SeekFrom::Start(9)).unwrap();
    let image = MinidumpWriter::new(pid, pid).dump(&mut dest).expect("dump");
    let total_writes = dest.writes;
    let ok = dest.bad.is_none() && dest.inner.get_ref()[9..] == image[..] && dest.inner.get_ref()[..9] == [0xEE; 9];
    let msg = dest.bad.clone();
    // an I/O error at each write
    let mut failures = Vec::new();
    for k in 0..total_writes {
        let mut d = Probe { inner: Cursor::new(Vec::new()), writes: 0, fail_at: Some(k), bad: None, start: 0, ops: 0, fail_op: None };
        let r = MinidumpWriter::new(pid, pid).dump(&mut d);
        if r.is_ok() { failures.push(format!("write #{k} failed but the dump reported success")); }
        if k > 0 {
            if let Some(b) = d.bad { failures.push(format!("failing write #{k}: {b}")); }
        }
    }
    // a ONE-SHOT I/O error at each destination operation, write or seek (the operations after it work again): whether
    // the writer gives up or carries on, what is in the destination after every later write stays consistent
    let total_ops = dest.ops;
    for k in 0..total_ops {
        let mut d = Probe { inner: Cursor::new(Vec::new()), writes: 0, fail_at: None, bad: None, start: 0, ops: 0, fail_op: Some(k) };
        let _ = MinidumpWriter::new(pid, pid).dump(&mut d);
        if d.writes > 0 {
            if let Some(b) = d.bad { failures.push(format!("one-shot failure of destination operation #{k}: {b}")); }
        }
    }
    println!("BPRIME evaluations={}", total_writes + total_ops);
    child.kill().expect("Failed to kill process");
    child.wait().expect("Failed to wait on killed process");
    assert!(ok, "undisturbed dump: {:?} (or destination != image)", msg);
    assert!(failures.is_empty(), "{}", failures.join("\n"));
    assert!(total_writes > 20);
}

/// C11 / C04: every thread of the target is already traced by someone else, so no attach succeeds: the dump
/// still succeeds, lists no thread, and reports the failures.
#[test]
fn dump_succeeds_when_no_thread_can_be_attached() {
    use nix::sys::{ptrace, wait::waitpid};
    let mut child = start_child_and_wait_for_threads(1);
    let pid = nix::unistd::Pid::from_raw(child.id() as i32);
    ptrace::attach(pid).expect("setup: attach from the test");
    waitpid(pid, None).expect("setup: waitpid");
    let r = MinidumpWriter::new(pid.as_raw(), pid.as_raw()).dump(&mut Cursor::new(Vec::new()));
    let _ = ptrace::detach(pid, None);
    child.kill().expect("Failed to kill process");
    child.wait().expect("Failed to wait on killed process");
    let bytes = r.expect("failing to attach to every thread must not fail the dump");
    let dump = minidump::Minidump::read(bytes.as_slice()).expect("readable minidump");
    let list: minidump::MinidumpThreadList = dump.get_stream().expect("thread list present");
    assert_eq!(list.threads.len(), 0);
    let soft = read_minidump_soft_errors_or_panic(&dump);
    let text = soft.to_string();
    assert!(text.contains("SuspendThreadsErrors") && text.contains("SuspendNoThreadsLeft"), "soft errors: {text}");
}

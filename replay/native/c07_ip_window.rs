//! C07, native check on a live child: the window around the crash instruction pointer. For instruction pointers
//! inside a mapping, on its last byte, on the FIRST byte of a mapping that directly follows another one, and in
//! no mapping at all: a region [max(start, ip-128), min(end, ip+128)) of the mapping that contains ip is in the
//! memory list and holds the target's bytes; outside every mapping there is no window.
mod common;
use common::*;
use minidump::*;
use minidump_writer::{crash_context::CrashContext, minidump_writer::MinidumpWriter};
use std::os::unix::fs::FileExt;

#[test]
fn ip_window_is_clipped_to_the_mapping_that_contains_ip() {
    let mut child = start_child_and_wait_for_threads(1);
    let pid = child.id() as i32;
    let maps = std::fs::read_to_string(format!("/proc/{pid}/maps")).unwrap();
    let parsed: Vec<(u64, u64, bool)> = maps.lines().map(|l| {
        let mut it = l.split_whitespace();
        let (s, e) = it.next().unwrap().split_once('-').unwrap();
        (u64::from_str_radix(s, 16).unwrap(), u64::from_str_radix(e, 16).unwrap(), it.next().unwrap().starts_with('r'))
    }).collect();
    // two adjacent readable lines that the writer keeps as DIFFERENT mappings: a file mapping followed by an anonymous rw one
    let lines: Vec<&str> = maps.lines().collect();
    let k = (0..parsed.len() - 1).find(|&k| parsed[k].1 == parsed[k + 1].0 && parsed[k].2 && parsed[k + 1].2
        && lines[k].contains('/') && lines[k + 1].split_whitespace().count() == 5);
    // without such a pair in this process's layout only the single-mapping cases are exercised
    let (a, b) = match k {
        Some(k) => (parsed[k], Some(parsed[k + 1])),
        None => (*parsed.iter().zip(&lines).find(|(p, l)| p.2 && l.contains('/') && p.1 - p.0 >= 0x1000).expect("setup: a readable file mapping").0, None),
    };
    let stack_sp = { // a valid stack pointer: the main thread's
        let plain = MinidumpWriter::new(pid, pid).dump(&mut std::io::Cursor::new(Vec::new())).unwrap();
        let d = Minidump::read(plain.as_slice()).unwrap();
        let l: MinidumpThreadList = d.get_stream().unwrap();
        let c = l.threads[0].raw.thread_context;
        u64::from_le_bytes(plain[c.rva as usize + 0x98..c.rva as usize + 0xa0].try_into().unwrap())
    };
    let mem = std::fs::File::open(format!("/proc/{pid}/mem")).unwrap();
    let mut bad = Vec::new();
    let mut cases = vec![("inside A", a.0 + 0x200, Some(a)), ("last byte of A", a.1 - 1, Some(a)), ("in no mapping", 0x10u64, None)];
    if let Some(b) = b {
        cases.push(("first byte of B", b.0, Some(b)));
        cases.push(("inside B", b.0 + 5, Some(b)));
    }
    println!("BPRIME evaluations={}", cases.len());
    for (what, ip, inside) in cases {
        let mut inner: crash_context::CrashContext = unsafe { std::mem::zeroed() };
        inner.context.uc_mcontext.gregs[libc::REG_RIP as usize] = ip as i64;
        inner.context.uc_mcontext.gregs[libc::REG_RSP as usize] = stack_sp as i64;
        inner.siginfo.ssi_signo = libc::SIGSEGV as u32;
        inner.pid = pid;
        inner.tid = pid;
        let mut w = MinidumpWriter::new(pid, pid);
        w.set_crash_context(CrashContext { inner });
        let bytes = match w.dump(&mut std::io::Cursor::new(Vec::new())) { Ok(b) => b, Err(e) => { bad.push(format!("{what}: dump failed: {e:?}")); continue; } };
        let dump = Minidump::read(bytes.as_slice()).unwrap();
        let list: MinidumpMemoryList<'_> = dump.get_stream().unwrap();
        let holding: Vec<_> = list.iter().filter(|m| m.base_address <= ip && ip < m.base_address + m.size).collect();
        match inside {
            Some((s, e, _)) => {
                let (lo, hi) = (std::cmp::max(s, ip.saturating_sub(128)), std::cmp::min(e, ip + 128));
                match holding.iter().find(|m| m.base_address == lo && m.base_address + m.size == hi) {
                    Some(m) => {
                        let mut want = vec![0u8; (hi - lo) as usize];
                        mem.read_exact_at(&mut want, lo).unwrap();
                        if m.bytes != &want[..] { bad.push(format!("{what}: window bytes differ from the target's memory")); }
                    }
                    None => bad.push(format!("{what} (ip {ip:#x}): no region [{lo:#x}, {hi:#x}); regions holding ip: {:?}",
                        holding.iter().map(|m| (m.base_address, m.size)).collect::<Vec<_>>())),
                }
            }
            None => if !holding.is_empty() { bad.push(format!("{what}: a window was produced for an unmapped ip")); },
        }
    }
    child.kill().expect("Failed to kill process");
    child.wait().expect("Failed to wait on killed process");
    assert!(bad.is_empty(), "{}", bad.join("\n"));
}

//! C03, native check on a live child over the dump's RETURN PATHS: whichever way a dump request ends — success
//! under each option, a destination I/O error at every write index, an unreadable app-memory region — no thread
//! of the target is left traced or stopped once `dump` has returned.
mod common;
use common::*;
use minidump_writer::{app_memory::AppMemory, minidump_writer::MinidumpWriter};
use std::io::{Cursor, Seek, SeekFrom, Write};

struct FailingAt { inner: Cursor<Vec<u8>>, writes: usize, fail_at: Option<usize> }
impl Write for FailingAt {
    fn write(&mut self, b: &[u8]) -> std::io::Result<usize> {
        if self.fail_at == Some(self.writes) { return Err(std::io::Error::other("injected write failure")); }
        self.writes += 1;
        self.inner.write(b)
    }
    fn flush(&mut self) -> std::io::Result<()> { Ok(()) }
}
impl Seek for FailingAt { fn seek(&mut self, p: SeekFrom) -> std::io::Result<u64> { self.inner.seek(p) } }

/// (tid, state letter, tracer pid) of every thread of `pid`
fn thread_states(pid: i32) -> Vec<(i32, char, i32)> {
    let mut v = Vec::new();
    for e in std::fs::read_dir(format!("/proc/{pid}/task")).unwrap() {
        let tid: i32 = e.unwrap().file_name().to_string_lossy().parse().unwrap();
        let Ok(status) = std::fs::read_to_string(format!("/proc/{pid}/task/{tid}/status")) else { continue };
        let field = |k: &str| status.lines().find(|l| l.starts_with(k)).map(|l| l[k.len()..].trim().to_string()).unwrap_or_default();
        v.push((tid, field("State:").chars().next().unwrap_or('?'), field("TracerPid:").parse().unwrap_or(-1)));
    }
    v
}

fn left_running(pid: i32, what: &str, bad: &mut Vec<String>) {
    // a continued thread needs a moment to leave the stop; poll up to 3 s
    let mut last = Vec::new();
    for _ in 0..300 {
        last = thread_states(pid).into_iter().filter(|(_, s, t)| *t != 0 || *s == 'T' || *s == 't').collect();
        if last.is_empty() { return; }
        std::thread::sleep(std::time::Duration::from_millis(10));
    }
    bad.push(format!("{what}: threads left traced or stopped (tid, state, tracer): {last:?}"));
    // do not let one failure cascade into the next scenario
    unsafe { libc::kill(pid, libc::SIGCONT); }
}

#[test]
fn target_runs_again_after_every_return_path() {
    let mut child = start_child_and_wait_for_threads(4);
    let pid = child.id() as i32;
    let mut bad = Vec::new();
    let mut scenarios = 0usize;

    // success paths under each option
    for opt in 0..5 {
        let mut w = MinidumpWriter::new(pid, pid);
        match opt {
            1 => { w.sanitize_stack(); }
            2 => { w.skip_stacks_if_mapping_unreferenced(); }
            3 => { w.set_minidump_size_limit(64 * 1024); }
            4 => { w.stop_timeout(std::time::Duration::from_millis(1)); }
            _ => {}
        }
        let r = w.dump(&mut Cursor::new(Vec::new()));
        scenarios += 1;
        left_running(pid, &format!("option set {opt} (dump returned {})", if r.is_ok() { "Ok" } else { "Err" }), &mut bad);
    }
    // a hard error from a section writer
    let mut w = MinidumpWriter::new(pid, pid);
    w.set_app_memory(vec![AppMemory { ptr: 0, length: 16 }]);
    let r = w.dump(&mut Cursor::new(Vec::new()));
    if r.is_ok() { bad.push("sanity: an unreadable app-memory region must abort the request".into()); }
    scenarios += 1;
    left_running(pid, "unreadable app-memory region", &mut bad);
    // a destination I/O error at every write index
    let mut probe = FailingAt { inner: Cursor::new(Vec::new()), writes: 0, fail_at: None };
    MinidumpWriter::new(pid, pid).dump(&mut probe).expect("plain dump");
    let total = probe.writes;
    for k in 0..total {
        let mut d = FailingAt { inner: Cursor::new(Vec::new()), writes: 0, fail_at: Some(k) };
        let r = MinidumpWriter::new(pid, pid).dump(&mut d);
        if r.is_ok() { bad.push(format!("sanity: write #{k} failed but the dump succeeded")); }
        scenarios += 1;
        left_running(pid, &format!("I/O error at destination write #{k}"), &mut bad);
    }
    child.kill().expect("Failed to kill process");
    child.wait().expect("Failed to wait on killed process");
    println!("BPRIME evaluations={scenarios}");
    assert!(bad.is_empty(), "{}", bad.join("\n"));
}

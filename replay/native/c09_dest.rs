//! C09, tier B′ (bounded-exhaustive, native): the destination receives exactly the image. Every sequence of up
//! to 4 operations from {grow 1 byte, grow 13 bytes, flush, flush+entry, entry only (dump_dir_entry)} on the real DirSection with a real
//! std::io::Cursor, for start offsets {0, 5, 16} and destinations pre-filled with 0, 16 or 64 bytes (cursor
//! possibly in the middle or beyond the end): after every operation
//!   dest[start .. start+flushed) == image[0 .. flushed)   (on success of a flush: flushed == |image|)
//!   dest[.. start) and dest[start+|image| ..) are the pre-existing bytes; the destination is never longer
//!   than max(old length, start + |image|).
use minidump_writer::{
    dir_section::DirSection,
    mem_writer::{Buffer, MemoryArrayWriter},
    minidump_format::{MDLocationDescriptor, MDRawDirectory},
};
use std::io::{Cursor, Seek, SeekFrom};

fn check(dest: &[u8], before: &[u8], start: usize, image: &[u8], flushed: usize, what: &str) {
    if flushed > 0 {
        assert!(dest.len() >= start + flushed, "{what}: destination shorter than the flushed prefix");
        assert_eq!(&dest[start..start + flushed], &image[..flushed], "{what}: flushed prefix differs from the image");
    }
    let keep = std::cmp::min(std::cmp::min(start, before.len()), dest.len());
    assert!(dest.len() >= std::cmp::min(start, before.len()), "{what}: destination was truncated");
    assert_eq!(&dest[..keep], &before[..keep], "{what}: bytes before the start offset were modified");
    let end = start + image.len();
    if before.len() > end {
        assert_eq!(&dest[end..before.len()], &before[end..], "{what}: bytes beyond the image were modified");
    }
    assert!(dest.len() <= std::cmp::max(before.len(), end), "{what}: destination grew beyond the image");
}

#[test]
fn bprime_destination_equals_image_for_every_short_history() {
    let mut n = 0;
    for start in [0usize, 5, 16] {
        for prefill in [0usize, 16, 64] {
            for code in 0..5usize.pow(4) {
                for len in 1..=4usize {
                    if len < 4 && code >= 5usize.pow(len as u32) { continue; }
                    let before: Vec<u8> = (0..prefill).map(|i| 0xC0 ^ i as u8).collect();
                    let mut dest = Cursor::new(before.clone());
                    dest.seek(SeekFrom::Start(start as u64)).unwrap();
                    let mut buffer = Buffer::with_capacity(0);
                    let mut flushed = 0usize;
                    let mut emitted = 0u32;
                    {
                        let mut dir = DirSection::new(&mut buffer, 4, &mut dest).unwrap();
                        let mut c = code;
                        for step in 0..len {
                            let op = c % 5; c /= 5;
                            match op {
                                0 => { MemoryArrayWriter::write_bytes(&mut buffer, &[0x11 + step as u8]); }
                                1 => { MemoryArrayWriter::write_bytes(&mut buffer, &[0x21 + step as u8; 13]); }
                                2 => { dir.write_to_file(&mut buffer, None).unwrap(); flushed = buffer.len(); }
                                3 => {
                                    if emitted < 4 {
                                        let d = MDRawDirectory { stream_type: 7 + emitted, location: MDLocationDescriptor { data_size: 1, rva: 0 } };
                                        dir.write_to_file(&mut buffer, Some(d)).unwrap();
                                        emitted += 1;
                                    } else {
                                        dir.write_to_file(&mut buffer, None).unwrap();
                                    }
                                    flushed = buffer.len();
                                }
                                _ => {
                                    // the public dump_dir_entry on its own: patches the slot in the image and in the
                                    // destination, flushes nothing else
                                    if emitted < 4 {
                                        let d = MDRawDirectory { stream_type: 70 + emitted, location: MDLocationDescriptor { data_size: 1, rva: 0 } };
                                        dir.dump_dir_entry(&mut buffer, d).unwrap();
                                        emitted += 1;
                                    }
                                }
                            }
                        }
                    }
                    n += 1;
                    let image: Vec<u8> = buffer.into();
                    check(dest.get_ref(), &before, start, &image, flushed, &format!("start={start} prefill={prefill} ops={code:o}/{len}"));
                }
            }
        }
    }
    println!("BPRIME evaluations={n}");
}

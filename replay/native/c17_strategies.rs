//! C17, bounded-exhaustive native contract check of the three read strategies on a forked, attached child.
//! Contract (from the statement): a range that is entirely readable is returned exactly, whatever its alignment
//! and length; a range that runs into unreadable memory fails or yields a strict prefix of the true bytes.
//! Domain: a 3-page patterned region followed by an unmapped hole; starts at every alignment mod 8 in the first
//! page, in the last page and right before the end; lengths 1..=24, around one page and around two pages;
//! ranges inside, ending exactly at, and running across the end of the region; `read` and `read_to_vec`.
use minidump_writer::mem_reader::MemReader;
use nix::sys::{ptrace, signal::Signal, wait::waitpid};
use nix::unistd::{fork, ForkResult};

const PAGE: usize = 4096;
const PAGES: usize = 3;

#[test]
fn every_strategy_returns_true_bytes_or_a_strict_prefix() {
    let base = unsafe {
        let p = libc::mmap(std::ptr::null_mut(), (PAGES + 4) * PAGE, libc::PROT_READ | libc::PROT_WRITE,
                           libc::MAP_PRIVATE | libc::MAP_ANONYMOUS, -1, 0);
        assert_ne!(p, libc::MAP_FAILED);
        assert_eq!(libc::munmap((p as usize + PAGES * PAGE) as *mut libc::c_void, 4 * PAGE), 0);
        p as usize
    };
    let region = unsafe { std::slice::from_raw_parts_mut(base as *mut u8, PAGES * PAGE) };
    for (i, b) in region.iter_mut().enumerate() {
        *b = ((i as u32).wrapping_mul(2654435761) >> 13) as u8 | 1; // never 0, so a zero-filled tail is detectable
    }
    let truth = region.to_vec();
    let end = base + PAGES * PAGE;

    match unsafe { fork() }.expect("setup: fork") {
        ForkResult::Child => loop {
            std::thread::sleep(std::time::Duration::from_secs(1));
        },
        ForkResult::Parent { child } => {
            ptrace::attach(child).expect("setup: attach");
            waitpid(child, None).expect("setup: waitpid");
            let pid = child.as_raw();
            let mut lens: Vec<usize> = (1..=24).collect();
            lens.extend([PAGE - 9, PAGE - 1, PAGE, PAGE + 1, PAGE + 13, 2 * PAGE - 3, 2 * PAGE, 2 * PAGE + 5]);
            let mut starts: Vec<usize> = Vec::new();
            for a in 0..8 {
                starts.push(base + 16 + a);                 // inside the first page
                starts.push(base + (PAGES - 1) * PAGE + a); // start of the last page
                starts.push(end - 32 + a);                  // close to the end
                starts.push(end - 8 + a);                   // closer
            }
            let mut bad = Vec::new();
            let mut evaluations = 0usize;
            for (sname, mk) in [("process_vm_readv", 0u8), ("/proc/<pid>/mem", 1), ("PTRACE_PEEKDATA", 2)] {
                for &src in &starts {
                    for &len in &lens {
                        let readable = end.saturating_sub(src).min(len); // bytes of the range that exist
                        let want = &truth[src - base..src - base + readable];
                        let mut reader = match mk {
                            0 => MemReader::for_virtual_mem(pid),
                            1 => MemReader::for_file(pid).expect("setup: open /proc/pid/mem"),
                            _ => MemReader::for_ptrace(pid),
                        };
                        // read(): poisoned destination, so stale data is visible
                        let mut dst = vec![0u8; len];
                        evaluations += 1;
                        match reader.read(src, &mut dst) {
                            Ok(n) => {
                                if n > len || n > readable {
                                    bad.push(format!("{sname}: read(start = end-{}, len {len}) claims {n} bytes but only {readable} are readable", end - src));
                                } else if dst[..n] != want[..n] {
                                    bad.push(format!("{sname}: read(start = end-{}, len {len}) returned {n} bytes that differ from the target's memory", end - src));
                                } else if readable == len && n != len {
                                    bad.push(format!("{sname}: read(start = end-{}, len {len}) of an entirely readable range returned only {n} bytes", end - src));
                                }
                            }
                            Err(e) => {
                                if readable == len {
                                    bad.push(format!("{sname}: read(start = end-{}, len {len}) of an entirely readable range failed: {e}", end - src));
                                }
                            }
                        }
                        // read_to_vec(): the vector is what copy_from_process hands to the stream writers
                        evaluations += 1;
                        match reader.read_to_vec(src, std::num::NonZeroUsize::new(len).unwrap()) {
                            Ok(v) => {
                                if v.len() > readable || v[..] != want[..v.len()] {
                                    bad.push(format!("{sname}: read_to_vec(start = end-{}, len {len}) returned {} bytes, {} readable, content {}", end - src, v.len(), readable,
                                        if v.len() <= readable && v[..] == want[..v.len()] { "ok" } else { "differs from the target's memory" }));
                                } else if readable == len && v.len() != len {
                                    bad.push(format!("{sname}: read_to_vec(start = end-{}, len {len}) of an entirely readable range returned {} bytes", end - src, v.len()));
                                }
                            }
                            Err(e) => {
                                if readable == len {
                                    bad.push(format!("{sname}: read_to_vec(start = end-{}, len {len}) of an entirely readable range failed: {e}", end - src));
                                }
                            }
                        }
                    }
                }
            }
            let _ = ptrace::detach(child, None);
            let _ = nix::sys::signal::kill(child, Signal::SIGKILL);
            let _ = waitpid(child, None);
            println!("BPRIME evaluations={evaluations}");
            bad.truncate(12);
            assert!(bad.is_empty(), "{}", bad.join("\n"));
        }
    }
}

//@inject src/linux/sections/thread_names_stream.rs
// Kani obligations on src/linux/sections/thread_names_stream.rs (C15; part (b) of C01).
//
// [B] write(): for a thread list with a given named/unnamed pattern the stream is
//   <u32 count of named threads> <count x {u32 tid, u64 rva}> and entry j pairs the tid of the
//   j-th NAMED thread with the RVA of a string blob holding that thread's name; unnamed threads
//   leave no trace and do not disturb the others.
// Bound: 2 threads, symbolic tids (non-negative), names from a concrete table, every
// named/unnamed pattern (one harness each).
use super::*;
use crate::linux::ptrace_dumper::{Thread, __verif_ptrace_dumper::bare_dumper};

fn le32(b: &[u8], at: usize) -> u32 { u32::from_le_bytes([b[at], b[at + 1], b[at + 2], b[at + 3]]) }
fn le64(b: &[u8], at: usize) -> u64 {
    u64::from_le_bytes([b[at], b[at + 1], b[at + 2], b[at + 3], b[at + 4], b[at + 5], b[at + 6], b[at + 7]])
}

/// the UTF-16 blob at `rva` is `<u32 2n><n units>` and equals `units`
fn blob_is(img: &[u8], rva: usize, units: &[u16]) -> bool {
    if rva + 4 + 2 * units.len() > img.len() { return false; }
    if le32(img, rva) as usize != 2 * units.len() { return false; }
    let mut k = 0;
    while k < units.len() {
        if u16::from_le_bytes([img[rva + 4 + 2 * k], img[rva + 5 + 2 * k]]) != units[k] { return false; }
        k += 1;
    }
    true
}

fn check(names: [Option<(&str, &[u16])>; 2]) {
    let t0: i32 = kani::any();
    let t1: i32 = kani::any();
    kani::assume(t0 >= 0 && t1 >= 0);
    let tids = [t0, t1];
    let threads = vec![
        Thread { tid: t0, name: names[0].map(|n| n.0.to_string()) },
        Thread { tid: t1, name: names[1].map(|n| n.0.to_string()) },
    ];
    let dumper = bare_dumper(threads, Vec::new());
    let mut buffer = DumpBuf::with_capacity(0);
    let res = write(&mut buffer, &dumper);
    core::mem::forget(dumper); // Drop would SIGCONT pid 0 (foreign call, not modelled by Kani)
    match res {
        Ok(dirent) => {
            let img: &[u8] = &buffer;
            let named = names.iter().filter(|n| n.is_some()).count();
            assert!(dirent.stream_type == MDStreamType::ThreadNamesStream as u32);
            assert!(dirent.location.rva == 0);
            assert!(dirent.location.data_size as usize == 4 + 12 * named);   // [C01] size the count implies
            assert!(le32(img, 0) as usize == named);                        // [C15] one entry per named thread
            let mut j = 0;
            let mut i = 0;
            while i < 2 {
                if let Some((_, units)) = names[i] {
                    let at = 4 + 12 * j;
                    assert!(le32(img, at) == tids[i] as u32);               // [C15] that thread's id ...
                    let rva = le64(img, at + 4) as usize;
                    assert!(rva >= 4 + 12 * named);                         // [C01] the blob lies after the array
                    assert!(blob_is(img, rva, units));                      // [C15] ... with that thread's name
                    j += 1;
                }
                i += 1;
            }
        }
        Err(e) => { core::mem::forget(e); assert!(false, "tids are non-negative: write must succeed"); }
    }
}

const A: (&str, &[u16]) = ("a", &[0x61]);
const BC: (&str, &[u16]) = ("bc", &[0x62, 0x63]);

#[kani::proof]
#[kani::unwind(27)]
fn vk_thread_names_both() { check([Some(A), Some(BC)]); }
#[kani::proof]
#[kani::unwind(27)]
fn vk_thread_names_first_only() { check([Some(A), None]); }
#[kani::proof]
#[kani::unwind(27)]
fn vk_thread_names_second_only() { check([None, Some(BC)]); }
#[kani::proof]
#[kani::unwind(27)]
fn vk_thread_names_none() { check([None, None]); }

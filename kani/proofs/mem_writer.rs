//@inject src/mem_writer.rs
// Kani obligations on src/mem_writer.rs (property C16; foundation of C01/C09/C10).
// Injected as a child module of `crate::mem_writer`, so private items are visible.
//
// Tiers: [C] complete (loop-free / fixed-size, full-domain symbolic inputs)
//        [B] bounded  (bound stated at the harness)
use super::*;
use crate::minidump_cpu::RawContextCPU;
use crate::minidump_format::*;

// ---------------------------------------------------------------------------
// [C] per-type scroll facts: what the Verus prelude assumes about
// `SizeWith::size_with` / `TryIntoCtx::try_into_ctx` for each element type.
// size_with(Little) == K, writing into exactly K bytes succeeds and reports K.
// ---------------------------------------------------------------------------
macro_rules! scroll_size_harness {
    ($name:ident, $t:ty, $k:expr, $mk:expr) => {
        #[kani::proof]
        fn $name() {
            assert!(size!($t) == $k);
            let v: $t = $mk;
            let mut dst = [0u8; $k];
            let r: Result<usize, scroll::Error> = v.try_into_ctx(&mut dst[..], scroll::Endian::Little);
            match r {
                Ok(n) => assert!(n == $k),
                Err(e) => {
                    core::mem::forget(e);
                    assert!(false, "try_into_ctx into an exactly-sized slice must succeed");
                }
            }
        }
    };
}

fn any_loc() -> MDLocationDescriptor {
    MDLocationDescriptor { data_size: kani::any(), rva: kani::any() }
}

scroll_size_harness!(vk_size_u8, u8, 1, kani::any());
scroll_size_harness!(vk_size_u16, u16, 2, kani::any());
scroll_size_harness!(vk_size_u32, u32, 4, kani::any());
scroll_size_harness!(vk_size_dirent, MDRawDirectory, 12,
    MDRawDirectory { stream_type: kani::any(), location: any_loc() });
scroll_size_harness!(vk_size_memdesc, MDMemoryDescriptor, 16,
    MDMemoryDescriptor { start_of_memory_range: kani::any(), memory: any_loc() });
scroll_size_harness!(vk_size_header, MDRawHeader, 32,
    MDRawHeader { signature: kani::any(), version: kani::any(), stream_count: kani::any(),
        stream_directory_rva: kani::any(), checksum: kani::any(), time_date_stamp: kani::any(), flags: kani::any() });
scroll_size_harness!(vk_size_thread, MDRawThread, 48,
    MDRawThread { thread_id: kani::any(), suspend_count: kani::any(), priority_class: kani::any(),
        priority: kani::any(), teb: kani::any(),
        stack: MDMemoryDescriptor { start_of_memory_range: kani::any(), memory: any_loc() },
        thread_context: any_loc() });
scroll_size_harness!(vk_size_threadname, MDRawThreadName, 12,
    MDRawThreadName { thread_id: kani::any(), thread_name_rva: kani::any() });
scroll_size_harness!(vk_size_exception, MDRawExceptionStream, 168,
    MDRawExceptionStream { thread_id: kani::any(), __align: kani::any(),
        exception_record: MDException { exception_code: kani::any(), exception_flags: kani::any(),
            exception_record: kani::any(), exception_address: kani::any(), number_parameters: kani::any(),
            __align: kani::any(), exception_information: kani::any() },
        thread_context: any_loc() });

// [C] little-endian byte placement (what `ser` means), checked on the directory entry
// and the memory descriptor, which are the two records other proofs read back.
#[kani::proof]
fn vk_ser_dirent_layout() {
    let d = MDRawDirectory { stream_type: kani::any(), location: any_loc() };
    let mut b = Buffer::with_capacity(0);
    let w = MemoryWriter::<MDRawDirectory>::alloc_with_val(&mut b, d.clone());
    match w {
        Ok(w) => {
            assert!(w.position == 0 && b.inner.len() == 12);
            assert!(b.inner[0..4] == d.stream_type.to_le_bytes());
            assert!(b.inner[4..8] == d.location.data_size.to_le_bytes());
            assert!(b.inner[8..12] == d.location.rva.to_le_bytes());
        }
        Err(e) => { core::mem::forget(e); assert!(false); }
    }
}

#[kani::proof]
fn vk_ser_memdesc_layout() {
    let d = MDMemoryDescriptor { start_of_memory_range: kani::any(), memory: any_loc() };
    let mut b = Buffer::with_capacity(0);
    match MemoryWriter::<MDMemoryDescriptor>::alloc_with_val(&mut b, d.clone()) {
        Ok(_) => {
            assert!(b.inner.len() == 16);
            assert!(b.inner[0..8] == d.start_of_memory_range.to_le_bytes());
            assert!(b.inner[8..12] == d.memory.data_size.to_le_bytes());
            assert!(b.inner[12..16] == d.memory.rva.to_le_bytes());
        }
        Err(e) => { core::mem::forget(e); assert!(false); }
    }
}

// ---------------------------------------------------------------------------
// [B] Buffer::write_at on the real Vec (twin of the Verus contract; cross-checks the
// assumed `Vec[a..b]` axiom). Bound: buffer of exactly 5 bytes (symbolic content),
// every offset 0..=5, N = u32 — so the slot is inside, sticks out, or starts at the end.
// (Symbolic *lengths* make CBMC run out of memory on Vec code; lengths are concrete,
// contents and offsets symbolic.)
// ---------------------------------------------------------------------------
fn buffer_with<const N: usize>() -> (Buffer, [u8; N]) {
    let pre: [u8; N] = kani::any();
    let mut b = Buffer::with_capacity(0);
    b.write_all(&pre);
    (b, pre)
}

#[kani::proof]
#[kani::unwind(7)]
fn vk_write_at_u32_len5() {
    let (mut b, old) = buffer_with::<5>();
    let off: usize = kani::any();
    kani::assume(off <= 5);
    let v: u32 = kani::any();
    let r: Result<usize, scroll::Error> = b.write_at(off, v);
    let expect_len = if 5 >= off + 4 { 5 } else { off + 4 };
    assert!(b.inner.len() == expect_len);
    let mut i = 0;
    while i < 5 {
        if i < off || i >= off + 4 { assert!(b.inner[i] == old[i]); }
        i += 1;
    }
    match r {
        Ok(n) => { assert!(n == 4); assert!(b.inner[off..off + 4] == v.to_le_bytes()); }
        Err(e) => { core::mem::forget(e); assert!(false); }
    }
}

// ---------------------------------------------------------------------------
// [B] the three functions Verus cannot read (`.iter().enumerate()`, `encode_utf16`):
// their Verus `external_body` contracts are checked here on the compiled code.
// ---------------------------------------------------------------------------
fn any_memdesc() -> MDMemoryDescriptor {
    MDMemoryDescriptor { start_of_memory_range: kani::any(), memory: any_loc() }
}

fn check_memdesc_array<const N: usize>(arr: [MDMemoryDescriptor; N]) {
    let (mut b, old) = buffer_with::<2>();
    match MemoryArrayWriter::<MDMemoryDescriptor>::alloc_from_array(&mut b, &arr) {
        Ok(w) => {
            assert!(w.position as usize == 2);
            assert!(w.array_size == N);
            assert!(b.inner.len() == 2 + 16 * N);
            assert!(b.inner[0] == old[0] && b.inner[1] == old[1]);
            let mut k = 0;
            while k < N {
                let base = 2 + 16 * k;
                assert!(b.inner[base..base + 8] == arr[k].start_of_memory_range.to_le_bytes());
                assert!(b.inner[base + 8..base + 12] == arr[k].memory.data_size.to_le_bytes());
                assert!(b.inner[base + 12..base + 16] == arr[k].memory.rva.to_le_bytes());
                k += 1;
            }
            let loc = w.location();
            assert!(loc.rva as usize == 2 && loc.data_size as usize == 16 * N);
        }
        Err(e) => { core::mem::forget(e); assert!(false); }
    }
}

// alloc_from_array: position == old end, array_size == n, image == old + concat(ser(elem_i)).
// Bound: 2 elements of MDMemoryDescriptor after a 2-byte image. (A zero-length array makes CBMC
// explore the slice iterator with dangling pointers: > 13 GB, dropped.)
#[kani::proof]
#[kani::unwind(35)]
fn vk_alloc_from_array_memdesc_n2() { check_memdesc_array::<2>([any_memdesc(), any_memdesc()]); }

// alloc_from_array::<u8>: the byte-copy used for the instruction-pointer window. Bound: 5 bytes.
#[kani::proof]
#[kani::unwind(7)]
fn vk_alloc_from_array_u8_n5() {
    let (mut b, old) = buffer_with::<2>();
    let arr: [u8; 5] = kani::any();
    match MemoryArrayWriter::<u8>::alloc_from_array(&mut b, &arr) {
        Ok(w) => {
            assert!(w.position as usize == 2 && w.array_size == 5);
            assert!(b.inner.len() == 7);
            assert!(b.inner[0] == old[0] && b.inner[1] == old[1]);
            assert!(b.inner[2..7] == arr);
        }
        Err(e) => { core::mem::forget(e); assert!(false); }
    }
}

// alloc_from_iter: same law through the ExactSizeIterator route (module list, handle list).
// Bound: 2 elements of MDRawThreadName (12 bytes each) after a 2-byte image.
#[kani::proof]
#[kani::unwind(27)]
fn vk_alloc_from_iter_threadname_n2() {
    let (mut b, old) = buffer_with::<2>();
    let t: [(u32, u64); 2] = kani::any();
    let arr = [
        MDRawThreadName { thread_id: t[0].0, thread_name_rva: t[0].1 },
        MDRawThreadName { thread_id: t[1].0, thread_name_rva: t[1].1 },
    ];
    match MemoryArrayWriter::<MDRawThreadName>::alloc_from_iter(&mut b, arr) {
        Ok(w) => {
            assert!(w.position as usize == 2 && w.array_size == 2);
            assert!(b.inner.len() == 2 + 24);
            assert!(b.inner[0] == old[0] && b.inner[1] == old[1]);
            let mut k = 0;
            while k < 2 {
                let base = 2 + 12 * k;
                assert!(b.inner[base..base + 4] == t[k].0.to_le_bytes());
                assert!(b.inner[base + 4..base + 12] == t[k].1.to_le_bytes());
                k += 1;
            }
        }
        Err(e) => { core::mem::forget(e); assert!(false); }
    }
}

// the same law at its corner: an EMPTY array is located at the current end of the image (offset law of C16: "returns a
// location equal to that offset and size"), for every allocation route. Loop-free for n = 0: complete, not bounded.
#[kani::proof]
#[kani::unwind(4)]
fn vk_alloc_empty_arrays_are_located_at_the_end() {
    let (mut b, old) = buffer_with::<2>();
    match MemoryArrayWriter::<MDRawThreadName>::alloc_from_iter(&mut b, Vec::<MDRawThreadName>::new()) {
        Ok(w) => {
            assert!(w.position as usize == 2 && w.array_size == 0);
            assert!(w.location().rva == 2 && w.location().data_size == 0);
            assert!(b.inner.len() == 2 && b.inner[0] == old[0] && b.inner[1] == old[1]);
        }
        Err(e) => { core::mem::forget(e); assert!(false); }
    }
    let none: [MDMemoryDescriptor; 0] = [];
    match MemoryArrayWriter::<MDMemoryDescriptor>::alloc_from_array(&mut b, &none) {
        Ok(w) => { assert!(w.position as usize == 2 && w.array_size == 0 && b.inner.len() == 2); }
        Err(e) => { core::mem::forget(e); assert!(false); }
    }
    match MemoryArrayWriter::<MDRawThreadName>::alloc_array(&mut b, 0) {
        Ok(w) => { assert!(w.position as usize == 2 && w.array_size == 0 && b.inner.len() == 2); }
        Err(e) => { core::mem::forget(e); assert!(false); }
    }
    let w = MemoryArrayWriter::write_bytes(&mut b, &[]);
    assert!(w.position as usize == 2 && w.array_size == 0 && b.inner.len() == 2);
}

// write_string_to_location: `<u32 byte length><UTF-16LE units>`; the location covers both.
// The expected units are computed here from the Unicode definition of UTF-16 (an
// independent spec, not std's encoder): a scalar below 0x10000 is one unit, otherwise the
// pair (0xD800 + ((c-0x10000) >> 10), 0xDC00 + ((c-0x10000) & 0x3FF)). Decoding that back
// is the identity by the definition of UTF-16.
// Bound: 0, 1 or 2 chars; each char fully symbolic (every Unicode scalar value).
fn utf16_spec(c: char, out: &mut [u16; 4], n: &mut usize) {
    let v = c as u32;
    if v < 0x10000 {
        out[*n] = v as u16;
        *n += 1;
    } else {
        let w = v - 0x10000;
        out[*n] = 0xD800 + (w >> 10) as u16;
        out[*n + 1] = 0xDC00 + (w & 0x3FF) as u16;
        *n += 2;
    }
}

fn check_string(text: &str, units: &[u16; 4], n: usize) {
    let (mut b, old) = buffer_with::<2>();
    match write_string_to_location(&mut b, text) {
        Ok(loc) => {
            assert!(loc.rva as usize == 2);
            assert!(loc.data_size as usize == 4 + 2 * n);
            assert!(b.inner.len() == 2 + 4 + 2 * n);
            assert!(b.inner[0] == old[0] && b.inner[1] == old[1]);
            assert!(b.inner[2..6] == ((2 * n) as u32).to_le_bytes());
            let mut k = 0;
            while k < n {
                let p = 6 + 2 * k;
                assert!(b.inner[p..p + 2] == units[k].to_le_bytes());
                k += 1;
            }
        }
        Err(e) => { core::mem::forget(e); assert!(false); }
    }
}

#[kani::proof]
#[kani::unwind(6)]
fn vk_string_empty() {
    check_string("", &[0; 4], 0);
}

// Symbolic chars (even one, split by plane) exhaust memory in CBMC (encode_utf8 -> encode_utf16 ->
// collect: > 13 GB), so the string law is checked on a fixed table of concrete strings that covers
// every UTF-8 width (1..4 bytes) and both UTF-16 widths (1 unit, surrogate pair). Expected units are
// written out by hand from the Unicode tables, not computed by std.
#[kani::proof]
#[kani::unwind(8)]
fn vk_string_ascii() {
    check_string("ab", &[0x61, 0x62, 0, 0], 2);
}

#[kani::proof]
#[kani::unwind(8)]
fn vk_string_bmp() {
    // U+00E9 (2-byte UTF-8), U+20AC (3-byte UTF-8)
    check_string("\u{e9}\u{20ac}", &[0x00e9, 0x20ac, 0, 0], 2);
}

#[kani::proof]
#[kani::unwind(8)]
fn vk_string_supp() {
    // U+1D11E MUSICAL SYMBOL G CLEF = D834 DD1E
    check_string("\u{1d11e}", &[0xd834, 0xdd1e, 0, 0], 2);
}

#[kani::proof]
#[kani::unwind(10)]
fn vk_string_mixed() {
    // 'a', U+1F600 = D83D DE00, U+FFFD
    check_string("a\u{1f600}\u{fffd}", &[0x61, 0xd83d, 0xde00, 0xfffd], 4);
}

// ---------------------------------------------------------------------------
// contract-stubs used by harnesses of *callers* (never by the harnesses above): same effect on the image
// as the real functions (proved in Verus unit mem_writer / checked above), without the byte-wise loops
// of Vec::resize and of scroll's field-by-field serialisation, which dominate CBMC's cost for the
// 1232-byte CPU context.
// ---------------------------------------------------------------------------
pub(crate) fn stub_alloc_with_val<T>(buffer: &mut Buffer, _val: T) -> WriteResult<MemoryWriter<T>>
where
    T: TryIntoCtx<scroll::Endian, Error = scroll::Error> + SizeWith<scroll::Endian>,
{
    let position = buffer.position();
    let size = size!(T);
    let z = vec![0u8; size];
    buffer.write_all(&z);
    Ok(MemoryWriter { position: position as u32, size, phantom: std::marker::PhantomData })
}

pub(crate) fn stub_alloc_array<T>(buffer: &mut Buffer, array_size: usize) -> WriteResult<MemoryArrayWriter<T>>
where
    T: TryIntoCtx<scroll::Endian, Error = scroll::Error> + SizeWith<scroll::Endian>,
{
    let position = buffer.position();
    let z = vec![0u8; array_size * size!(T)];
    buffer.write_all(&z);
    Ok(MemoryArrayWriter { position: position as u32, array_size, phantom: std::marker::PhantomData })
}

pub(crate) fn array_size_of<T>(w: &MemoryArrayWriter<T>) -> usize { w.array_size }


// layout-only variants: the image end is a ghost counter (Buffer::position is stubbed to read it), no bytes
// are materialised. Used where only positions matter and 20+ allocations would exhaust CBMC's memory.
pub(crate) static mut GHOST_POS: u64 = 0;
pub(crate) fn stub_position(_b: &Buffer) -> u64 { unsafe { GHOST_POS } }
pub(crate) fn stub_alloc_with_val_nogrow<T>(_buffer: &mut Buffer, val: T) -> WriteResult<MemoryWriter<T>>
where
    T: TryIntoCtx<scroll::Endian, Error = scroll::Error> + SizeWith<scroll::Endian>,
{
    core::mem::forget(val);
    let size = size!(T);
    let position = unsafe { let p = GHOST_POS; GHOST_POS += size as u64; p };
    Ok(MemoryWriter { position: position as u32, size, phantom: std::marker::PhantomData })
}
pub(crate) fn stub_alloc_array_nogrow<T>(_buffer: &mut Buffer, array_size: usize) -> WriteResult<MemoryArrayWriter<T>>
where
    T: TryIntoCtx<scroll::Endian, Error = scroll::Error> + SizeWith<scroll::Endian>,
{
    let position = unsafe { let p = GHOST_POS; GHOST_POS += (array_size * size!(T)) as u64; p };
    Ok(MemoryArrayWriter { position: position as u32, array_size, phantom: std::marker::PhantomData })
}

//@inject src/linux/mem_reader.rs
// Kani obligations on src/linux/mem_reader.rs (C17).
//
// [B] MemReader::ptrace (word-by-word PTRACE_PEEKDATA): the kernel side is a stub of
// nix::sys::ptrace::read with the assumed semantics "a word read at `a` succeeds iff the whole word
// [a, a+8) is readable, and then returns the target's bytes" (ledger: kernel). Target memory is the
// byte function mem(a) = (a as u8) * 37 ^ SEED (adjacent bytes differ), readable range = one symbolic
// interval [LO, HI).
//   entirely readable range  => Ok(len) and dst == mem[src..src+len]
//   otherwise                => Err, or the bytes returned are true bytes (never fabricated)
// Bound: dst of exactly N bytes (N in the harness name: no full word / one word + every tail length /
// two words), symbolic src (every alignment), symbolic interval.
use super::*;
extern crate alloc;

static mut LO: usize = 0;
static mut HI: usize = 0;
static mut SEED: u8 = 0;

fn mem(a: usize) -> u8 { unsafe { (a as u8).wrapping_mul(37) ^ SEED } }

fn peek_stub(_pid: nix::unistd::Pid, addr: nix::sys::ptrace::AddressType) -> nix::Result<libc::c_long> {
    let a = addr as usize;
    unsafe {
        if a >= LO && a <= usize::MAX - 8 && a + 8 <= HI {
            let b = [mem(a), mem(a + 1), mem(a + 2), mem(a + 3), mem(a + 4), mem(a + 5), mem(a + 6), mem(a + 7)];
            Ok(libc::c_long::from_ne_bytes(b))
        } else {
            Err(nix::errno::Errno::EIO)
        }
    }
}

fn check_ptrace<const N: usize>() {
    let lo: usize = kani::any();
    let hi: usize = kani::any();
    // a readable mapping is at least two words long (real ones are multiples of 4 KiB) and does not wrap
    kani::assume(lo <= hi && hi - lo >= 16 && hi <= usize::MAX - 16);
    unsafe { LO = lo; HI = hi; SEED = kani::any(); }
    let src: usize = kani::any();
    kani::assume(src <= usize::MAX - 64);
    let mut dst = [0u8; N];
    let r = MemReader::ptrace(nix::unistd::Pid::from_raw(1), src, &mut dst);
    let all_readable = src >= lo && src + N <= hi;
    match r {
        Ok(n) => {
            assert!(n == N);
            let mut i = 0;
            while i < N { assert!(dst[i] == mem(src + i)); i += 1; }   // never fabricated
        }
        Err((_e, off)) => {
            assert!(!all_readable, "an entirely readable range must be read");   // [C17] completeness
            assert!(off <= N);
            let mut i = 0;
            while i < off { assert!(dst[i] == mem(src + i)); i += 1; }   // the reported prefix is true
        }
    }
}

#[kani::proof]
#[kani::stub(nix::sys::ptrace::read, peek_stub)]
#[kani::unwind(5)]
fn vk_ptrace_read_len3() { check_ptrace::<3>(); }

#[kani::proof]
#[kani::stub(nix::sys::ptrace::read, peek_stub)]
#[kani::unwind(10)]
fn vk_ptrace_read_len8() { check_ptrace::<8>(); }

#[kani::proof]
#[kani::stub(nix::sys::ptrace::read, peek_stub)]
#[kani::unwind(13)]
fn vk_ptrace_read_len11() { check_ptrace::<11>(); }

#[kani::proof]
#[kani::stub(nix::sys::ptrace::read, peek_stub)]
#[kani::unwind(19)]
fn vk_ptrace_read_len17() { check_ptrace::<17>(); }

// [C] read_to_vec never exposes more bytes than the strategy reported (Vec::from_raw_parts(ptr, read, length)
// is sound iff read <= length): checked through the ptrace strategy with the stub above.
#[kani::proof]
#[kani::stub(nix::sys::ptrace::read, peek_stub)]
#[kani::unwind(13)]
fn vk_read_to_vec_len_matches() {
    let lo: usize = kani::any();
    let hi: usize = kani::any();
    kani::assume(lo <= hi && hi - lo >= 16 && hi <= usize::MAX - 16);
    unsafe { LO = lo; HI = hi; SEED = kani::any(); }
    let src: usize = kani::any();
    kani::assume(src <= usize::MAX - 64);
    let mut r = MemReader::for_ptrace(1);
    match r.read_to_vec(src, std::num::NonZeroUsize::new(11).unwrap()) {
        Ok(v) => {
            assert!(v.len() == 11);
            let mut i = 0;
            while i < 11 { assert!(v[i] == mem(src + i)); i += 1; }
        }
        Err(e) => { core::mem::forget(e); }
    }
}

// ---------------------------------------------------------------------------
// [C] MemReader::read, strategy selection (C17): with the three strategies stubbed, the first one that
// succeeds is remembered and its result returned; when none succeeds the reader becomes Unavailable and stays
// so (the ptrace error is reported); a pre-selected strategy is the only one used.
// ---------------------------------------------------------------------------
static mut VMEM_OK: bool = false;
static mut PTRACE_OK: bool = false;
static mut CALLS_VMEM: u8 = 0;
static mut CALLS_PTRACE: u8 = 0;

fn g_vmem(_pid: nix::unistd::Pid, _src: usize, dst: &mut [u8]) -> Result<usize, nix::Error> {
    unsafe { CALLS_VMEM += 1; if VMEM_OK { Ok(dst.len()) } else { Err(nix::Error::ENOSYS) } }
}
fn g_ptrace(_pid: nix::unistd::Pid, _src: usize, dst: &mut [u8]) -> Result<usize, (nix::Error, usize)> {
    unsafe { CALLS_PTRACE += 1; if PTRACE_OK { Ok(dst.len()) } else { Err((nix::Error::EPERM, 0)) } }
}
fn g_open<P: AsRef<std::path::Path>>(_p: P) -> std::io::Result<std::fs::File> {
    Err(std::io::Error::from_raw_os_error(13))
}

#[kani::proof]
#[kani::stub(MemReader::vmem, g_vmem)]
#[kani::stub(MemReader::ptrace, g_ptrace)]
#[kani::stub(std::fs::File::open, g_open)]
#[kani::stub(alloc::fmt::format, g_fmt)]
#[kani::unwind(4)]
fn vk_read_strategy_selection() {
    unsafe { VMEM_OK = kani::any(); PTRACE_OK = kani::any(); }
    let (v, p) = unsafe { (VMEM_OK, PTRACE_OK) };
    let mut r = MemReader::new(1);
    let mut dst = [0u8; 4];
    let first = r.read(0x1000, &mut dst);
    match &first {
        Ok(n) => { assert!(*n == 4 && (v || p)); }
        Err(_) => { assert!(!v && !p); }
    }
    match (&r.style, v, p) {
        (Some(Style::VirtualMem), true, _) => {}
        (Some(Style::Ptrace), false, true) => {}
        (Some(Style::Unavailable { .. }), false, false) => {}
        _ => assert!(false, "the first strategy that works is the one remembered"),
    }
    core::mem::forget(first);
    // second read: only the remembered strategy is used
    let (cv, cp) = unsafe { (CALLS_VMEM, CALLS_PTRACE) };
    let second = r.read(0x2000, &mut dst);
    unsafe {
        if v { assert!(CALLS_VMEM == cv + 1 && CALLS_PTRACE == cp && second.is_ok()); }
        else if p { assert!(CALLS_VMEM == cv && CALLS_PTRACE == cp + 1 && second.is_ok()); }
        else { assert!(CALLS_VMEM == cv && CALLS_PTRACE == cp && second.is_err()); }   // Unavailable is sticky
    }
    core::mem::forget(second);
    core::mem::forget(r);
}
fn g_fmt(_a: core::fmt::Arguments<'_>) -> String { String::new() }

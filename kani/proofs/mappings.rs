//@inject src/linux/sections/mappings.rs
// Kani obligations on src/linux/sections/mappings.rs (C02: a mapped file under /dev is never opened; C08 parts).
//
// [C] write(): the module-reading callees are stubbed — reading the target's memory fails (the case in
// which the code falls back to the mapped file), `Path::exists` says yes, and the stub of
// `std::fs::File::open` (every place that opens a file) records whether a path under /dev/ was
// opened. Mapping numbers are symbolic, the name is the concrete "/dev/x".
use super::*;
use crate::linux::ptrace_dumper::__verif_ptrace_dumper::{any_mapping, bare_dumper};
use std::ffi::OsString;

static mut OPENED_UNSAFE: bool = false;

fn stub_from_process_memory<T: ReadFromModule>(_mapping: &MappingInfo, _pid: crate::Pid) -> Result<T, errors::DumperError> {
    Err(errors::DumperError::NoStackPointerMapping)
}

fn stub_exists(_p: &std::path::Path) -> bool { true }

fn stub_open<P: AsRef<std::path::Path>>(path: P) -> std::io::Result<std::fs::File> {
    use std::os::unix::ffi::OsStrExt;
    if path.as_ref().as_os_str().as_bytes().starts_with(b"/dev/") {
        unsafe { OPENED_UNSAFE = true; }
    }
    Err(std::io::Error::from_raw_os_error(2))
}

#[kani::proof]
#[kani::stub(PtraceDumper::from_process_memory_for_mapping, stub_from_process_memory)]
#[kani::stub(std::path::Path::exists, stub_exists)]
#[kani::stub(std::fs::File::open, stub_open)]
#[kani::unwind(8)]
fn vk_mappings_never_opens_dev() {
    let mut m = any_mapping();
    m.name = Some(OsString::from("/dev/x"));
    let mut dumper = bare_dumper(Vec::new(), vec![m]);
    let mut config = MinidumpWriter::new(1, 1);
    let mut buffer = DumpBuf::with_capacity(0);
    let r = write(&mut config, &mut buffer, &mut dumper);
    core::mem::forget(dumper);
    core::mem::forget(r);
    assert!(unsafe { !OPENED_UNSAFE }, "a mapped file under /dev must never be opened");
}

//@inject src/linux/crash_context.rs
// helpers shared by harnesses that need a symbolic crash context (the arch module is private, so the
// constructor lives next to the struct)
use super::*;

pub(crate) fn any_pod<T, const N: usize>() -> T {
    assert!(core::mem::size_of::<T>() == N);
    let bytes: [u8; N] = kani::any();
    unsafe { core::mem::transmute_copy::<[u8; N], T>(&bytes) }
}

pub(crate) fn any_crash_context() -> CrashContext {
    let mut inner: crash_context::CrashContext = unsafe { core::mem::zeroed() };
    inner.context.uc_mcontext.gregs = kani::any();
    inner.float_state = any_pod::<crash_context::fpregset_t, 512>();
    inner.siginfo.ssi_signo = kani::any();
    inner.siginfo.ssi_code = kani::any();
    inner.siginfo.ssi_addr = kani::any();
    CrashContext { inner }
}


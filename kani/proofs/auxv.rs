//@inject src/linux/auxv/mod.rs
// [C] From<DirectAuxvDumpInfo> (C18): a field that is 0 is unset, any other value is kept verbatim.
use super::*;

#[kani::proof]
fn vk_direct_auxv_from() {
    let d = DirectAuxvDumpInfo {
        program_header_count: kani::any(),
        program_header_address: kani::any(),
        linux_gate_address: kani::any(),
        entry_address: kani::any(),
    };
    let (a, b, c, e) = (d.program_header_count, d.program_header_address, d.linux_gate_address, d.entry_address);
    let i = AuxvDumpInfo::from(d);
    assert!(i.get_program_header_count() == if a == 0 { None } else { Some(a) });
    assert!(i.get_program_header_address() == if b == 0 { None } else { Some(b) });
    assert!(i.get_linux_gate_address() == if c == 0 { None } else { Some(c) });
    assert!(i.get_entry_address() == if e == 0 { None } else { Some(e) });
    assert!(i.is_complete() == (a != 0 && b != 0 && c != 0 && e != 0));
}

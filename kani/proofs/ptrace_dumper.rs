//@inject src/linux/ptrace_dumper.rs
// Kani obligations on src/linux/ptrace_dumper.rs.
use super::*;
use crate::maps_reader::{MappingInfo, SystemMappingInfo};

/// a dumper that was never attached to anything (the struct has a private field, so every
/// harness that needs a PtraceDumper gets it from here)
pub(crate) fn bare_dumper(threads: Vec<Thread>, mappings: Vec<MappingInfo>) -> PtraceDumper {
    // zero-initialised and then filled field by field, so that a change which adds a field to the
    // struct does not stop the harnesses from compiling (an all-zero bool / Option / integer is valid)
    unsafe {
        let mut d = core::mem::MaybeUninit::<PtraceDumper>::zeroed();
        let p = d.as_mut_ptr();
        core::ptr::write(core::ptr::addr_of_mut!((*p).pid), 0);
        core::ptr::write(core::ptr::addr_of_mut!((*p).threads_suspended), false);
        core::ptr::write(core::ptr::addr_of_mut!((*p).threads), threads);
        core::ptr::write(core::ptr::addr_of_mut!((*p).auxv), Default::default());
        core::ptr::write(core::ptr::addr_of_mut!((*p).mappings), mappings);
        core::ptr::write(core::ptr::addr_of_mut!((*p).page_size), 4096);
        d.assume_init()
    }
}

pub(crate) fn any_perms() -> MMPermissions {
    MMPermissions::from_bits_truncate(kani::any())
}

pub(crate) fn any_mapping() -> MappingInfo {
    let start: usize = kani::any();
    let size: usize = kani::any();
    kani::assume(size > 0 && start <= usize::MAX - size);
    MappingInfo {
        start_address: start,
        size,
        system_mapping_info: SystemMappingInfo { start_address: start, end_address: start + size },
        offset: kani::any(),
        permissions: any_perms(),
        name: None,
    }
}

// ---------------------------------------------------------------------------
// [C] may_be_stack == (Some && (readable || writable))   (contract assumed by Verus unit `stack`)
// ---------------------------------------------------------------------------
#[kani::proof]
fn vk_may_be_stack_rule() {
    let m = any_mapping();
    let r = m.permissions.contains(MMPermissions::READ);
    let w = m.permissions.contains(MMPermissions::WRITE);
    assert!(PtraceDumper::may_be_stack(Some(&m)) == (r || w));
    assert!(!PtraceDumper::may_be_stack(None));
}

// ---------------------------------------------------------------------------
// [B] find_mapping returns the first mapping (list order) whose biased range holds the address
// (contract `found` assumed by Verus unit `stack`). Bound: exactly 2 symbolic mappings.
// ---------------------------------------------------------------------------
#[kani::proof]
#[kani::unwind(4)]
fn vk_find_mapping_2() {
    let m0 = any_mapping();
    let m1 = any_mapping();
    let (s0, z0, s1, z1) = (m0.start_address, m0.size, m1.start_address, m1.size);
    let d = bare_dumper(Vec::new(), vec![m0, m1]);
    let a: usize = kani::any();
    let in0 = a >= s0 && a - s0 < z0;
    let in1 = a >= s1 && a - s1 < z1;
    match d.find_mapping(a) {
        Some(m) => {
            if in0 { assert!(core::ptr::eq(m, &d.mappings[0])); } else { assert!(in1 && core::ptr::eq(m, &d.mappings[1])); }
        }
        None => assert!(!in0 && !in1),
    }
    core::mem::forget(d); // Drop would SIGCONT pid 0 (foreign call, not modelled by Kani)
}

#[kani::proof]
#[kani::unwind(4)]
fn vk_find_mapping_no_bias_2() {
    let m0 = any_mapping();
    let m1 = any_mapping();
    let (s0, e0, s1, e1) = (m0.system_mapping_info.start_address, m0.system_mapping_info.end_address,
                            m1.system_mapping_info.start_address, m1.system_mapping_info.end_address);
    let d = bare_dumper(Vec::new(), vec![m0, m1]);
    let a: usize = kani::any();
    let in0 = s0 <= a && a < e0;
    let in1 = s1 <= a && a < e1;
    match d.find_mapping_no_bias(a) {
        Some(m) => {
            if in0 { assert!(core::ptr::eq(m, &d.mappings[0])); } else { assert!(in1 && core::ptr::eq(m, &d.mappings[1])); }
        }
        None => assert!(!in0 && !in1),
    }
    core::mem::forget(d); // Drop would SIGCONT pid 0 (foreign call, not modelled by Kani)
}

// ---------------------------------------------------------------------------
// [B] sanitize_stack_copy (C12; never panics: C02).
//   length kept; bytes below align_up(sp_offset) zero; trailing partial word zero; every full word at or
//   above that offset is unchanged iff it qualifies, else the sentinel; qualifies(w) <=>
//   |w as isize| <= 4096  ||  w in the thread's own stack mapping  ||  w in some executable mapping.
// Bound: stack copy of exactly N bytes (harness name), fully symbolic content; sp_offset symbolic in
// 0..=N+9 (so "offset beyond the region" is inside the bound); stack_pointer symbolic; two symbolic
// mappings (1 or 2, harness name) at arbitrary 64-bit positions, each at most 4 MiB (bounds the bitmap loop; arbitrary positions
// cover the modulo-2048 bucket aliasing of the pre-filter), each executable or not.
// ---------------------------------------------------------------------------
const DEFACED: usize = 0x0defaced0defaced;

fn qualifies(w: usize, stack_map: Option<(usize, usize)>, exec: &[(usize, usize, bool); 2]) -> bool {
    let s = w as isize;
    if s >= -4096 && s <= 4096 { return true; }
    if let Some((lo, hi)) = stack_map { if lo <= w && w < hi { return true; } }
    // find_mapping_no_bias returns the FIRST mapping containing the address; it must be executable
    if exec[0].0 <= w && w < exec[0].1 { return exec[0].2; }
    if exec[1].0 <= w && w < exec[1].1 { return exec[1].2; }
    false
}

fn small_mapping() -> MappingInfo {
    let m = any_mapping();
    kani::assume(m.size <= 4 * 1024 * 1024);
    m
}

fn check_sanitize<const N: usize, const TWO: bool>() {
    let m0 = small_mapping();
    let m1 = small_mapping();
    let maps = [
        (m0.system_mapping_info.start_address, m0.system_mapping_info.end_address, m0.permissions.contains(MMPermissions::EXECUTE)),
        if TWO {
            (m1.system_mapping_info.start_address, m1.system_mapping_info.end_address, m1.permissions.contains(MMPermissions::EXECUTE))
        } else { (0, 0, false) },
    ];
    let d = bare_dumper(Vec::new(), if TWO { vec![m0, m1] } else { vec![m0] });
    let input: [u8; N] = kani::any();
    let mut stack = input;
    let sp: usize = kani::any();
    let sp_offset: usize = kani::any();
    kani::assume(sp_offset <= N + 9);
    let stack_map = if maps[0].0 <= sp && sp < maps[0].1 { Some((maps[0].0, maps[0].1)) }
        else if maps[1].0 <= sp && sp < maps[1].1 { Some((maps[1].0, maps[1].1)) } else { None };
    let r = d.sanitize_stack_copy(&mut stack, sp, sp_offset);
    core::mem::forget(d);
    match r {
        Ok(()) => {
            let off = core::cmp::min((sp_offset + 7) & !7, N);
            let mut i = 0;
            while i < off { assert!(stack[i] == 0); i += 1; }              // below the stack pointer: zero
            let mut k = off;
            while k + 8 <= N {
                let w = usize::from_ne_bytes([input[k], input[k + 1], input[k + 2], input[k + 3], input[k + 4], input[k + 5], input[k + 6], input[k + 7]]);
                let o = usize::from_ne_bytes([stack[k], stack[k + 1], stack[k + 2], stack[k + 3], stack[k + 4], stack[k + 5], stack[k + 6], stack[k + 7]]);
                if qualifies(w, stack_map, &maps) { assert!(o == w); } else { assert!(o == DEFACED); }
                k += 8;
            }
            while k < N { assert!(stack[k] == 0); k += 1; }               // trailing partial word: zero
        }
        Err(e) => { core::mem::forget(e); assert!(false, "sanitize_stack_copy has no failure mode for these inputs"); }
    }
}

#[kani::proof]
#[kani::unwind(12)]
fn vk_sanitize_len8_1map() { check_sanitize::<8, false>(); }

#[kani::proof]
#[kani::unwind(15)]
fn vk_sanitize_len12_1map() { check_sanitize::<12, false>(); }

#[kani::proof]
#[kani::unwind(19)]
fn vk_sanitize_len16_1map() { check_sanitize::<16, false>(); }

#[kani::proof]
#[kani::unwind(12)]
fn vk_sanitize_len8_2map() { check_sanitize::<8, true>(); }


// ---------------------------------------------------------------------------
// [B] suspend_threads (C04, C11): with suspend_thread stubbed to succeed or fail per thread, the retained
// list is the order-preserving filter of the attachable threads, every thread is tried exactly once, one
// soft error is recorded per dropped thread, and the flag is set. Bound: 3 threads.
// ---------------------------------------------------------------------------
static mut ATTACH_OK: [bool; 3] = [false; 3];
static mut ATTACH_CALLS: [u8; 3] = [0; 3];

fn g_suspend_thread(child: Pid) -> Result<(), DumperError> {
    let i = (child - 100) as usize;
    unsafe {
        if i < 3 { ATTACH_CALLS[i] += 1; if ATTACH_OK[i] { return Ok(()); } }
    }
    Err(DumperError::DetachSkippedThread(child))
}

#[kani::proof]
#[kani::stub(PtraceDumper::suspend_thread, g_suspend_thread)]
#[kani::unwind(6)]
fn vk_suspend_threads_3() {
    unsafe { ATTACH_OK = kani::any(); }
    let ok = unsafe { ATTACH_OK };
    let threads = vec![
        Thread { tid: 100, name: None }, Thread { tid: 101, name: None }, Thread { tid: 102, name: None },
    ];
    let mut d = bare_dumper(threads, Vec::new());
    let mut errs: ErrorList<DumperError> = ErrorList::default();
    d.suspend_threads(&mut errs);
    unsafe { assert!(ATTACH_CALLS[0] == 1 && ATTACH_CALLS[1] == 1 && ATTACH_CALLS[2] == 1); }   // [C04] every thread tried exactly once
    let expect: usize = ok.iter().filter(|b| **b).count();
    assert!(d.threads.len() == expect);                                                          // [C04]
    let mut j = 0;
    let mut i = 0;
    while i < 3 {
        if ok[i] { assert!(d.threads[j].tid == 100 + i as i32); j += 1; }                      // [C04] order kept, no duplicates
        i += 1;
    }
    assert!(errs.len() == 3 - expect);                                                          // [C11] one soft error per dropped thread
    assert!(d.threads_suspended);
    core::mem::forget(d);
    core::mem::forget(errs);
}

// ---------------------------------------------------------------------------
// [B] resume_threads / Drop (C03): every retained thread is detached exactly once, the flag is cleared, a
// second call detaches nothing, and dropping the dumper resumes and sends SIGCONT. Bound: 2 threads.
// ---------------------------------------------------------------------------
static mut DETACH_CALLS: [u8; 3] = [0; 3];
static mut SIGCONT_SENT: u8 = 0;

fn g_resume_thread(child: Pid) -> Result<(), DumperError> {
    let i = (child - 100) as usize;
    unsafe { if i < 3 { DETACH_CALLS[i] += 1; } }
    Ok(())
}

fn g_kill<T: Into<Option<nix::sys::signal::Signal>>>(_pid: nix::unistd::Pid, signal: T) -> nix::Result<()> {
    if signal.into() == Some(nix::sys::signal::Signal::SIGCONT) { unsafe { SIGCONT_SENT += 1; } }
    Ok(())
}

#[kani::proof]
#[kani::stub(PtraceDumper::resume_thread, g_resume_thread)]
#[kani::unwind(5)]
fn vk_resume_threads_2() {
    let threads = vec![Thread { tid: 100, name: None }, Thread { tid: 101, name: None }];
    let mut d = bare_dumper(threads, Vec::new());
    let suspended: bool = kani::any();
    d.threads_suspended = suspended;
    d.resume_threads(error_graph::strategy::DontCare);
    assert!(!d.threads_suspended);
    d.resume_threads(error_graph::strategy::DontCare);   // idempotent: nothing is detached twice
    assert!(!d.threads_suspended);
    core::mem::forget(d);
    unsafe {
        let want = if suspended { 1 } else { 0 };
        assert!(DETACH_CALLS[0] == want && DETACH_CALLS[1] == want);   // [C03] detached exactly once
    }
}

#[kani::proof]
#[kani::stub(PtraceDumper::resume_thread, g_resume_thread)]
#[kani::stub(nix::sys::signal::kill, g_kill)]
#[kani::unwind(5)]
fn vk_drop_resumes_and_continues() {
    let threads = vec![Thread { tid: 100, name: None }];
    let mut d = bare_dumper(threads, Vec::new());
    let suspended: bool = kani::any();
    d.threads_suspended = suspended;
    drop(d);
    unsafe {
        assert!(DETACH_CALLS[0] == if suspended { 1 } else { 0 });   // [C03]
        assert!(SIGCONT_SENT == 1);                                  // [C03] the process is always allowed to continue
    }
}

// [C] ptrace_detach: a thread that no longer exists (ESRCH) is not an error; the detach request is issued once
static mut RAW_DETACH: u8 = 0;
fn g_detach_esrch<T: Into<Option<nix::sys::signal::Signal>>>(_pid: nix::unistd::Pid, _sig: T) -> nix::Result<()> {
    unsafe { RAW_DETACH += 1; }
    Err(nix::errno::Errno::ESRCH)
}
fn g_detach_ok<T: Into<Option<nix::sys::signal::Signal>>>(_pid: nix::unistd::Pid, _sig: T) -> nix::Result<()> {
    unsafe { RAW_DETACH += 1; }
    Ok(())
}
#[kani::proof]
#[kani::stub(nix::sys::ptrace::detach, g_detach_esrch)]
fn vk_ptrace_detach_esrch_is_ok() {
    let r = ptrace_detach(kani::any());
    assert!(r.is_ok());
    unsafe { assert!(RAW_DETACH == 1); }
    core::mem::forget(r);
}
#[kani::proof]
#[kani::stub(nix::sys::ptrace::detach, g_detach_ok)]
fn vk_ptrace_detach_ok() {
    let r = PtraceDumper::resume_thread(kani::any());
    assert!(r.is_ok());
    unsafe { assert!(RAW_DETACH == 1); }
    core::mem::forget(r);
}

// ---------------------------------------------------------------------------
// [B] suspend_thread (C03): the attach/wait protocol against stubbed ptrace/waitpid.
//   * a signal other than SIGSTOP seen while waiting is re-injected (cont with that signal), in order
//   * on every Err return the thread is not left attached
//   * Ok only after SIGSTOP was seen and the thread has a non-null stack pointer
// Bound: at most 3 wait results.
// ---------------------------------------------------------------------------
static mut WAITS: u8 = 0;
static mut WAIT_SIG: [u8; 3] = [0; 3];        // 0 = SIGSTOP, 3 = exited, 4 = EINTR, 5 = error, 32 + n = stopped by signal n (ANY signal 1..=31 but SIGSTOP)
static mut ATTACHED: bool = false;
static mut CONT_WITH: [u8; 3] = [9; 3];
static mut CONTS: u8 = 0;
static mut RSP_ZERO: bool = false;
static mut REGS_FAIL: bool = false;

fn g_attach(_pid: nix::unistd::Pid) -> nix::Result<()> {
    // success, "not permitted" (already traced, sandbox) or "no such process" (the thread exited after it was listed)
    let k: u8 = kani::any();
    match k {
        0 => { unsafe { ATTACHED = true; } Ok(()) }
        1 => Err(nix::errno::Errno::EPERM),
        _ => Err(nix::errno::Errno::ESRCH),
    }
}
fn g_waitpid<P: Into<Option<nix::unistd::Pid>>>(pid: P, _f: Option<wait::WaitPidFlag>) -> nix::Result<wait::WaitStatus> {
    let p = pid.into().unwrap();
    unsafe {
        if WAITS >= 3 { kani::assume(false); }
        let k = WAIT_SIG[WAITS as usize];
        WAITS += 1;
        match k {
            0 => Ok(wait::WaitStatus::Stopped(p, signal::Signal::SIGSTOP)),
            3 => { ATTACHED = false; Ok(wait::WaitStatus::Exited(p, 0)) }
            4 => Err(Errno::EINTR),
            n if n >= 32 => match signal::Signal::try_from((n - 32) as i32) {
                Ok(sig) => Ok(wait::WaitStatus::Stopped(p, sig)),
                Err(_) => { kani::assume(false); Err(Errno::ECHILD) }
            },
            _ => Err(Errno::ECHILD),
        }
    }
}
fn g_cont<T: Into<Option<signal::Signal>>>(_pid: nix::unistd::Pid, sig: T) -> nix::Result<()> {
    unsafe {
        if CONTS < 3 {
            CONT_WITH[CONTS as usize] = match sig.into() {
                Some(signal::Signal::SIGSTOP) => 0,
                Some(other) => 32 + (other as i32) as u8,
                None => 8,
            };
        }
        CONTS += 1;
    }
    Ok(())
}
fn g_detach1<T: Into<Option<signal::Signal>>>(_pid: nix::unistd::Pid, _sig: T) -> nix::Result<()> {
    unsafe { ATTACHED = false; }
    Ok(())
}
fn g_getregs(_pid: Pid) -> std::result::Result<libc::user_regs_struct, ThreadInfoError> {
    unsafe {
        if REGS_FAIL { return Err(ThreadInfoError::IndexOutOfBounds(0, 0)); }
        let mut r: libc::user_regs_struct = core::mem::zeroed();
        r.rsp = if RSP_ZERO { 0 } else { 0x7000 };
        Ok(r)
    }
}

#[kani::proof]
#[kani::stub(nix::sys::ptrace::attach, g_attach)]
#[kani::stub(nix::sys::wait::waitpid, g_waitpid)]
#[kani::stub(nix::sys::ptrace::cont, g_cont)]
#[kani::stub(nix::sys::ptrace::detach, g_detach1)]
#[kani::stub(crate::linux::thread_info::x86::ThreadInfoX86::getregs, g_getregs)]
#[kani::unwind(5)]
fn vk_suspend_thread_protocol() {
    unsafe {
        WAIT_SIG = kani::any();
        let mut i = 0;
        while i < 3 {
            let k = WAIT_SIG[i];
            kani::assume(k == 0 || k == 3 || k == 4 || k == 5 || (k >= 33 && k <= 63 && k != 32 + signal::Signal::SIGSTOP as i32 as u8));
            i += 1;
        }
        RSP_ZERO = kani::any();
        REGS_FAIL = kani::any();
    }
    let r = PtraceDumper::suspend_thread(100);
    unsafe {
        // signals seen before the SIGSTOP were passed back, each once, in order
        let mut seen = 0u8;
        let mut i = 0;
        while i < WAITS as usize {
            let k = WAIT_SIG[i];
            if k >= 32 {
                assert!(seen < CONTS && CONT_WITH[seen as usize] == k, "a signal intercepted at attach is re-injected (whichever signal it is)");   // [C03]
                seen += 1;
            }
            i += 1;
        }
        assert!(CONTS == seen);                                                                           // [C03] nothing injected twice
        match r {
            Ok(()) => {
                // [C11] [C04] a thread is reported as suspended only after it was attached and its SIGSTOP was seen: a failed
                // attach (whatever the errno, incl. ESRCH for a thread that vanished) is an Err, which suspend_threads
                // turns into a soft error and a dropped thread
                assert!(WAITS >= 1 && WAIT_SIG[(WAITS - 1) as usize] == 0);                               // only after the SIGSTOP
                assert!(!RSP_ZERO && !REGS_FAIL);                                                         // [C04] sandbox helper threads are skipped
                assert!(ATTACHED);
            }
            Err(e) => {
                core::mem::forget(e);
                // the thread is not left attached, unless the failure was a `cont` error or a non-stop wait status
                let last = if WAITS >= 1 { WAIT_SIG[(WAITS - 1) as usize] } else { 9 };
                if last == 0 || last == 5 { assert!(!ATTACHED, "a thread we give up on must be detached"); }   // [C03]
            }
        }
    }
}

// ---------------------------------------------------------------------------
// [C] PtraceDumper::init (C11): the four best-effort steps (stop the process, complete the auxv info,
// enumerate threads, enumerate mappings) are stubbed to fail independently (all 16 combinations, symbolic);
// init still succeeds and records exactly one soft error per failed step, under the constructor of that
// step. Loop-free relative to the stubs: no bound.
// ---------------------------------------------------------------------------
static mut FAIL: [bool; 4] = [false; 4];

fn g_stop(_d: &mut PtraceDumper, _t: Duration) -> Result<(), StopProcessError> {
    if unsafe { FAIL[0] } { Err(StopProcessError::Timeout) } else { Ok(()) }
}
fn g_auxv(_a: &mut AuxvDumpInfo, _pid: Pid, _e: impl WriteErrorList<AuxvError>) -> Result<(), AuxvError> {
    if unsafe { FAIL[1] } { Err(AuxvError::InvalidFormat) } else { Ok(()) }
}
fn g_enum_threads(_d: &mut PtraceDumper, _e: impl WriteErrorList<InitError>) -> Result<(), InitError> {
    if unsafe { FAIL[2] } { Err(InitError::CannotPtraceSameProcess) } else { Ok(()) }
}
fn g_enum_mappings(_d: &mut PtraceDumper) -> Result<(), InitError> {
    if unsafe { FAIL[3] } { Err(InitError::CannotPtraceSameProcess) } else { Ok(()) }
}
fn g_sysconf(_v: nix::unistd::SysconfVar) -> nix::Result<Option<libc::c_long>> { Ok(Some(4096)) }

#[kani::proof]
#[kani::stub(PtraceDumper::stop_process, g_stop)]
#[kani::stub(AuxvDumpInfo::try_filling_missing_info, g_auxv)]
#[kani::stub(PtraceDumper::enumerate_threads, g_enum_threads)]
#[kani::stub(PtraceDumper::enumerate_mappings, g_enum_mappings)]
#[kani::stub(nix::unistd::sysconf, g_sysconf)]
#[kani::unwind(6)]
fn vk_init_best_effort_steps() {
    unsafe { FAIL = kani::any(); }
    let fail = unsafe { FAIL };
    let mut d = bare_dumper(Vec::new(), Vec::new());
    d.page_size = 0;
    let mut errs: ErrorList<InitError> = ErrorList::default();
    let r = d.init(Duration::from_millis(1), &mut errs);
    assert!(r.is_ok(), "a failing best-effort step never fails init");                      // [C11]
    assert!(d.page_size == 4096);
    let n = fail.iter().filter(|f| **f).count();
    assert!(errs.len() == n, "one soft error per failed step");                               // [C11]
    {
    let mut it = errs.iter();
    if fail[0] { assert!(matches!(it.next(), Some(InitError::StopProcessFailed(_)))); }
    if fail[1] { assert!(matches!(it.next(), Some(InitError::FillMissingAuxvInfoFailed(_)))); }
    if fail[2] { assert!(matches!(it.next(), Some(InitError::EnumerateThreadsFailed(_)))); }
    if fail[3] { assert!(matches!(it.next(), Some(InitError::EnumerateMappingsFailed(_)))); }
    core::mem::forget(it);
    }
    core::mem::forget(r);
    core::mem::forget(errs);
    core::mem::forget(d);
}

//@inject src/linux/ptrace_dumper.rs
// Kani obligations on src/linux/ptrace_dumper.rs.
use super::*;
use crate::maps_reader::{MappingInfo, SystemMappingInfo};

/// a dumper that was never attached to anything (the struct has a private field, so every
/// harness that needs a PtraceDumper gets it from here)
pub(crate) fn bare_dumper(threads: Vec<Thread>, mappings: Vec<MappingInfo>) -> PtraceDumper {
    PtraceDumper {
        pid: 0,
        threads_suspended: false,
        threads,
        auxv: Default::default(),
        mappings,
        page_size: 4096,
    }
}

pub(crate) fn any_perms() -> MMPermissions {
    MMPermissions::from_bits_truncate(kani::any())
}

pub(crate) fn any_mapping() -> MappingInfo {
    let start: usize = kani::any();
    let size: usize = kani::any();
    kani::assume(size > 0 && start <= usize::MAX - size);
    MappingInfo {
        start_address: start,
        size,
        system_mapping_info: SystemMappingInfo { start_address: start, end_address: start + size },
        offset: kani::any(),
        permissions: any_perms(),
        name: None,
    }
}

// ---------------------------------------------------------------------------
// [C] may_be_stack == (Some && (readable || writable))   (contract assumed by Verus unit `stack`)
// ---------------------------------------------------------------------------
#[kani::proof]
fn vk_may_be_stack_rule() {
    let m = any_mapping();
    let r = m.permissions.contains(MMPermissions::READ);
    let w = m.permissions.contains(MMPermissions::WRITE);
    assert!(PtraceDumper::may_be_stack(Some(&m)) == (r || w));
    assert!(!PtraceDumper::may_be_stack(None));
}

// ---------------------------------------------------------------------------
// [B] find_mapping returns the first mapping (list order) whose biased range holds the address
// (contract `found` assumed by Verus unit `stack`). Bound: exactly 2 symbolic mappings.
// ---------------------------------------------------------------------------
#[kani::proof]
#[kani::unwind(4)]
fn vk_find_mapping_2() {
    let m0 = any_mapping();
    let m1 = any_mapping();
    let (s0, z0, s1, z1) = (m0.start_address, m0.size, m1.start_address, m1.size);
    let d = bare_dumper(Vec::new(), vec![m0, m1]);
    let a: usize = kani::any();
    let in0 = a >= s0 && a - s0 < z0;
    let in1 = a >= s1 && a - s1 < z1;
    match d.find_mapping(a) {
        Some(m) => {
            if in0 { assert!(core::ptr::eq(m, &d.mappings[0])); } else { assert!(in1 && core::ptr::eq(m, &d.mappings[1])); }
        }
        None => assert!(!in0 && !in1),
    }
    core::mem::forget(d); // Drop would SIGCONT pid 0 (foreign call, not modelled by Kani)
}

#[kani::proof]
#[kani::unwind(4)]
fn vk_find_mapping_no_bias_2() {
    let m0 = any_mapping();
    let m1 = any_mapping();
    let (s0, e0, s1, e1) = (m0.system_mapping_info.start_address, m0.system_mapping_info.end_address,
                            m1.system_mapping_info.start_address, m1.system_mapping_info.end_address);
    let d = bare_dumper(Vec::new(), vec![m0, m1]);
    let a: usize = kani::any();
    let in0 = s0 <= a && a < e0;
    let in1 = s1 <= a && a < e1;
    match d.find_mapping_no_bias(a) {
        Some(m) => {
            if in0 { assert!(core::ptr::eq(m, &d.mappings[0])); } else { assert!(in1 && core::ptr::eq(m, &d.mappings[1])); }
        }
        None => assert!(!in0 && !in1),
    }
    core::mem::forget(d); // Drop would SIGCONT pid 0 (foreign call, not modelled by Kani)
}

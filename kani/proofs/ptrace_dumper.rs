//@inject src/linux/ptrace_dumper.rs
// Kani obligations on src/linux/ptrace_dumper.rs.
use super::*;
use crate::maps_reader::{MappingInfo, SystemMappingInfo};

/// a dumper that was never attached to anything (the struct has a private field, so every
/// harness that needs a PtraceDumper gets it from here)
pub(crate) fn bare_dumper(threads: Vec<Thread>, mappings: Vec<MappingInfo>) -> PtraceDumper {
    PtraceDumper {
        pid: 0,
        threads_suspended: false,
        threads,
        auxv: Default::default(),
        mappings,
        page_size: 4096,
    }
}

pub(crate) fn any_perms() -> MMPermissions {
    MMPermissions::from_bits_truncate(kani::any())
}

pub(crate) fn any_mapping() -> MappingInfo {
    let start: usize = kani::any();
    let size: usize = kani::any();
    kani::assume(size > 0 && start <= usize::MAX - size);
    MappingInfo {
        start_address: start,
        size,
        system_mapping_info: SystemMappingInfo { start_address: start, end_address: start + size },
        offset: kani::any(),
        permissions: any_perms(),
        name: None,
    }
}

// ---------------------------------------------------------------------------
// [C] may_be_stack == (Some && (readable || writable))   (contract assumed by Verus unit `stack`)
// ---------------------------------------------------------------------------
#[kani::proof]
fn vk_may_be_stack_rule() {
    let m = any_mapping();
    let r = m.permissions.contains(MMPermissions::READ);
    let w = m.permissions.contains(MMPermissions::WRITE);
    assert!(PtraceDumper::may_be_stack(Some(&m)) == (r || w));
    assert!(!PtraceDumper::may_be_stack(None));
}

// ---------------------------------------------------------------------------
// [B] find_mapping returns the first mapping (list order) whose biased range holds the address
// (contract `found` assumed by Verus unit `stack`). Bound: exactly 2 symbolic mappings.
// ---------------------------------------------------------------------------
#[kani::proof]
#[kani::unwind(4)]
fn vk_find_mapping_2() {
    let m0 = any_mapping();
    let m1 = any_mapping();
    let (s0, z0, s1, z1) = (m0.start_address, m0.size, m1.start_address, m1.size);
    let d = bare_dumper(Vec::new(), vec![m0, m1]);
    let a: usize = kani::any();
    let in0 = a >= s0 && a - s0 < z0;
    let in1 = a >= s1 && a - s1 < z1;
    match d.find_mapping(a) {
        Some(m) => {
            if in0 { assert!(core::ptr::eq(m, &d.mappings[0])); } else { assert!(in1 && core::ptr::eq(m, &d.mappings[1])); }
        }
        None => assert!(!in0 && !in1),
    }
    core::mem::forget(d); // Drop would SIGCONT pid 0 (foreign call, not modelled by Kani)
}

#[kani::proof]
#[kani::unwind(4)]
fn vk_find_mapping_no_bias_2() {
    let m0 = any_mapping();
    let m1 = any_mapping();
    let (s0, e0, s1, e1) = (m0.system_mapping_info.start_address, m0.system_mapping_info.end_address,
                            m1.system_mapping_info.start_address, m1.system_mapping_info.end_address);
    let d = bare_dumper(Vec::new(), vec![m0, m1]);
    let a: usize = kani::any();
    let in0 = s0 <= a && a < e0;
    let in1 = s1 <= a && a < e1;
    match d.find_mapping_no_bias(a) {
        Some(m) => {
            if in0 { assert!(core::ptr::eq(m, &d.mappings[0])); } else { assert!(in1 && core::ptr::eq(m, &d.mappings[1])); }
        }
        None => assert!(!in0 && !in1),
    }
    core::mem::forget(d); // Drop would SIGCONT pid 0 (foreign call, not modelled by Kani)
}

// ---------------------------------------------------------------------------
// [B] sanitize_stack_copy (C12; never panics: C02).
//   length kept; bytes below align_up(sp_offset) zero; trailing partial word zero; every full word at or
//   above that offset is unchanged iff it qualifies, else the sentinel; qualifies(w) <=>
//   |w as isize| <= 4096  ||  w in the thread's own stack mapping  ||  w in some executable mapping.
// Bound: stack copy of exactly N bytes (harness name), fully symbolic content; sp_offset symbolic in
// 0..=N+9 (so "offset beyond the region" is inside the bound); stack_pointer symbolic; two symbolic
// mappings at arbitrary 64-bit positions, each at most 4 MiB (bounds the bitmap loop; arbitrary positions
// cover the modulo-2048 bucket aliasing of the pre-filter), each executable or not.
// ---------------------------------------------------------------------------
const DEFACED: usize = 0x0defaced0defaced;

fn qualifies(w: usize, stack_map: Option<(usize, usize)>, exec: &[(usize, usize, bool); 2]) -> bool {
    let s = w as isize;
    if s >= -4096 && s <= 4096 { return true; }
    if let Some((lo, hi)) = stack_map { if lo <= w && w < hi { return true; } }
    // find_mapping_no_bias returns the FIRST mapping containing the address; it must be executable
    if exec[0].0 <= w && w < exec[0].1 { return exec[0].2; }
    if exec[1].0 <= w && w < exec[1].1 { return exec[1].2; }
    false
}

fn small_mapping() -> MappingInfo {
    let m = any_mapping();
    kani::assume(m.size <= 4 * 1024 * 1024);
    m
}

fn check_sanitize<const N: usize>() {
    let m0 = small_mapping();
    let m1 = small_mapping();
    let maps = [
        (m0.system_mapping_info.start_address, m0.system_mapping_info.end_address, m0.permissions.contains(MMPermissions::EXECUTE)),
        (m1.system_mapping_info.start_address, m1.system_mapping_info.end_address, m1.permissions.contains(MMPermissions::EXECUTE)),
    ];
    let d = bare_dumper(Vec::new(), vec![m0, m1]);
    let input: [u8; N] = kani::any();
    let mut stack = input;
    let sp: usize = kani::any();
    let sp_offset: usize = kani::any();
    kani::assume(sp_offset <= N + 9);
    let stack_map = if maps[0].0 <= sp && sp < maps[0].1 { Some((maps[0].0, maps[0].1)) }
        else if maps[1].0 <= sp && sp < maps[1].1 { Some((maps[1].0, maps[1].1)) } else { None };
    let r = d.sanitize_stack_copy(&mut stack, sp, sp_offset);
    core::mem::forget(d);
    match r {
        Ok(()) => {
            let off = core::cmp::min((sp_offset + 7) & !7, N);
            let mut i = 0;
            while i < off { assert!(stack[i] == 0); i += 1; }              // below the stack pointer: zero
            let mut k = off;
            while k + 8 <= N {
                let w = usize::from_ne_bytes([input[k], input[k + 1], input[k + 2], input[k + 3], input[k + 4], input[k + 5], input[k + 6], input[k + 7]]);
                let o = usize::from_ne_bytes([stack[k], stack[k + 1], stack[k + 2], stack[k + 3], stack[k + 4], stack[k + 5], stack[k + 6], stack[k + 7]]);
                if qualifies(w, stack_map, &maps) { assert!(o == w); } else { assert!(o == DEFACED); }
                k += 8;
            }
            while k < N { assert!(stack[k] == 0); k += 1; }               // trailing partial word: zero
        }
        Err(e) => { core::mem::forget(e); assert!(false, "sanitize_stack_copy has no failure mode for these inputs"); }
    }
}

#[kani::proof]
#[kani::unwind(12)]
fn vk_sanitize_len8() { check_sanitize::<8>(); }

#[kani::proof]
#[kani::unwind(15)]
fn vk_sanitize_len12() { check_sanitize::<12>(); }

#[kani::proof]
#[kani::unwind(20)]
fn vk_sanitize_len17() { check_sanitize::<17>(); }

//@inject src/linux/crash_context/x86_64.rs
// [C] CrashContext::fill_cpu_context (C05): every general-purpose, flag, segment and x87/SSE register of
// the supplied ucontext / fpstate lands in the corresponding CONTEXT_AMD64 field. ucontext gregs and
// the whole 512-byte fpstate are symbolic; no loop bound is involved (fixed-size arrays).
use super::*;

use super::super::__verif_crash_context::any_crash_context;

#[kani::proof]
fn vk_crash_fill_cpu_context_gprs() {
    let cc = any_crash_context();
    let g = cc.inner.context.uc_mcontext.gregs;
    let mut out = RawContextCPU::default();
    cc.fill_cpu_context(&mut out);
    assert!(out.rax == g[REG_RAX as usize] as u64 && out.rbx == g[REG_RBX as usize] as u64);
    assert!(out.rcx == g[REG_RCX as usize] as u64 && out.rdx == g[REG_RDX as usize] as u64);
    assert!(out.rsi == g[REG_RSI as usize] as u64 && out.rdi == g[REG_RDI as usize] as u64);
    assert!(out.rbp == g[REG_RBP as usize] as u64 && out.rsp == g[REG_RSP as usize] as u64);
    assert!(out.r8 == g[REG_R8 as usize] as u64 && out.r9 == g[REG_R9 as usize] as u64);
    assert!(out.r10 == g[REG_R10 as usize] as u64 && out.r11 == g[REG_R11 as usize] as u64);
    assert!(out.r12 == g[REG_R12 as usize] as u64 && out.r13 == g[REG_R13 as usize] as u64);
    assert!(out.r14 == g[REG_R14 as usize] as u64 && out.r15 == g[REG_R15 as usize] as u64);
    assert!(out.rip == g[REG_RIP as usize] as u64);
    assert!(out.eflags == g[REG_EFL as usize] as u32);
    // REG_CSGSFS packs cs | gs << 16 | fs << 32 (| ss << 48); ds/es/ss do not exist in a ucontext
    let seg = g[REG_CSGSFS as usize] as u64;
    assert!(out.cs == (seg & 0xffff) as u16);
    assert!(out.gs == ((seg >> 16) & 0xffff) as u16);
    assert!(out.fs == ((seg >> 32) & 0xffff) as u16);
    assert!(cc.get_instruction_pointer() == g[REG_RIP as usize] as usize);
    assert!(cc.get_stack_pointer() == g[REG_RSP as usize] as usize);
}

#[kani::proof]
fn vk_crash_fill_cpu_context_fpstate() {
    let cc = any_crash_context();
    let fs = &cc.inner.float_state;
    let mut out = RawContextCPU::default();
    cc.fill_cpu_context(&mut out);
    let f = &out.float_save;
    assert!(f[0..2] == fs.cwd.to_le_bytes() && f[2..4] == fs.swd.to_le_bytes());
    assert!(f[4] == fs.ftw as u8);
    assert!(f[6..8] == fs.fop.to_le_bytes());
    assert!(f[8..12] == (fs.rip as u32).to_le_bytes());
    assert!(f[16..20] == (fs.rdp as u32).to_le_bytes());
    assert!(f[24..28] == fs.mxcsr.to_le_bytes() && f[28..32] == fs.mxcr_mask.to_le_bytes());
    let i: usize = kani::any();
    kani::assume(i < 32);
    assert!(f[32 + 4 * i..36 + 4 * i] == fs.st_space[i].to_le_bytes());     // x87 area, byte for byte
    let j: usize = kani::any();
    kani::assume(j < 64);
    assert!(f[160 + 4 * j..164 + 4 * j] == fs.xmm_space[j].to_le_bytes());  // SSE area, byte for byte
}

//@inject src/linux/sections/app_memory.rs
// [B] app_memory::write (C07): one region per request, in request order, recorded at exactly the requested
// address, its descriptor naming the bytes appended for it. copy_from_process is stubbed by the reader
// contract (returns `length` bytes derived from the address). Bound: 2 requests, symbolic addresses,
// lengths 1..=3.
use super::*;
use crate::linux::app_memory::AppMemory;

fn mem(a: usize) -> u8 { (a as u8).wrapping_mul(37) ^ 0x5a }

fn g_copy(_pid: crate::Pid, src: usize, length: usize) -> std::result::Result<Vec<u8>, errors::DumperError> {
    let mut v = Vec::new();
    if length >= 1 { v.push(mem(src)); }
    if length >= 2 { v.push(mem(src.wrapping_add(1))); }
    if length >= 3 { v.push(mem(src.wrapping_add(2))); }
    Ok(v)
}

#[kani::proof]
#[kani::stub(PtraceDumper::copy_from_process, g_copy)]
#[kani::unwind(6)]
fn vk_app_memory_two_regions() {
    let (p0, p1): (usize, usize) = (kani::any(), kani::any());
    let (l0, l1): (usize, usize) = (kani::any(), kani::any());
    kani::assume(l0 >= 1 && l0 <= 3 && l1 >= 1 && l1 <= 3);
    let mut config = MinidumpWriter::new(1, 1);
    config.app_memory = vec![AppMemory { ptr: p0, length: l0 }, AppMemory { ptr: p1, length: l1 }];
    let mut buffer = DumpBuf::with_capacity(0);
    match write(&mut config, &mut buffer) {
        Ok(()) => {
            let img: &[u8] = &buffer;
            assert!(config.memory_blocks.len() == 2);                                        // [C07] one region per request
            let (b0, b1) = (config.memory_blocks[0], config.memory_blocks[1]);
            assert!(b0.start_of_memory_range == p0 as u64 && b1.start_of_memory_range == p1 as u64);   // [C07] requested address, in order
            assert!(b0.memory.data_size as usize == l0 && b1.memory.data_size as usize == l1);         // [C07] requested length
            assert!(b0.memory.rva == 0 && b1.memory.rva as usize == l0 && img.len() == l0 + l1);       // [C01] consecutive blobs
            assert!(img[0] == mem(p0) && img[l0] == mem(p1));                                           // [C07] the target's bytes
            assert!(img[l0 - 1] == mem(p0.wrapping_add(l0 - 1)));
        }
        Err(e) => { core::mem::forget(e); assert!(false); }
    }
}

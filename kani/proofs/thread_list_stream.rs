//@inject src/linux/sections/thread_list_stream.rs
// Kani obligations on src/linux/sections/thread_list_stream.rs: the per-thread loop of write(), which Verus
// cannot read (enumerate()). Callees are stubbed by their contracts and keep ghost state:
//   get_thread_info_by_index -> a ThreadInfo with symbolic rsp/rip
//   fill_thread_stack        -> records (thread id, ip, sp, cap) — its own body is proved in Verus unit `stack`
//   copy_from_process        -> records (src, len), returns 4 bytes
//   MemoryWriter::alloc_with_val / MemoryArrayWriter::alloc_array / set_value_at -> layout-only stubs
//   fill_cpu_context (both)  -> no-ops (proved separately: vk_*_fill_cpu_context_*)
use super::*;
use crate::linux::ptrace_dumper::{Thread, __verif_ptrace_dumper::bare_dumper};
use crate::mem_writer::__verif_mem_writer::{stub_alloc_array, stub_alloc_with_val};
use crate::thread_info::ThreadInfo;
use crate::mem_writer::Buffer;
use crate::Pid;

const MAXT: usize = 24;
static mut CAPPED: [bool; MAXT] = [false; MAXT];      // by call order
static mut CALLS: usize = 0;
static mut CALL_TID: [u32; MAXT] = [0; MAXT];
static mut CALL_IP: [usize; MAXT] = [0; MAXT];
static mut CALL_SP: [usize; MAXT] = [0; MAXT];
static mut INFO_IP: usize = 0;
static mut INFO_SP: usize = 0;
static mut COPY_SRC: usize = 0;
static mut COPY_LEN: usize = 0;
static mut COPY_CALLS: usize = 0;
static mut SLOT_TID: [u32; MAXT] = [0; MAXT];          // record written into slot i
static mut SLOT_CTX: [u32; MAXT] = [0; MAXT];
static mut SLOT_WRITTEN: [bool; MAXT] = [false; MAXT];

fn g_info(_d: &PtraceDumper, _index: usize) -> std::result::Result<ThreadInfo, errors::ThreadInfoError> {
    let mut ti: ThreadInfo = unsafe { core::mem::zeroed() };
    unsafe {
        ti.regs.rip = INFO_IP as u64;
        ti.regs.rsp = INFO_SP as u64;
        ti.stack_pointer = INFO_SP;
    }
    Ok(ti)
}

fn g_fill_thread_stack(
    _config: &mut MinidumpWriter,
    _buffer: &mut DumpBuf,
    _dumper: &PtraceDumper,
    thread: &mut MDRawThread,
    instruction_ptr: usize,
    stack_ptr: usize,
    max_stack_len: MaxStackLen,
) -> std::result::Result<(), errors::SectionThreadListError> {
    unsafe {
        if CALLS < MAXT {
            CAPPED[CALLS] = matches!(max_stack_len, MaxStackLen::Len(_));
            CALL_TID[CALLS] = thread.thread_id;
            CALL_IP[CALLS] = instruction_ptr;
            CALL_SP[CALLS] = stack_ptr;
        }
        CALLS += 1;
    }
    Ok(())
}

fn g_copy(_pid: Pid, src: usize, length: usize) -> std::result::Result<Vec<u8>, errors::DumperError> {
    unsafe { COPY_SRC = src; COPY_LEN = length; COPY_CALLS += 1; }
    Ok(vec![0u8; 4])
}

fn g_set_value_at<T>(w: &mut MemoryArrayWriter<T>, _b: &mut DumpBuf, val: T, index: usize) -> std::result::Result<(), MemoryWriterError>
where
    T: scroll::ctx::TryIntoCtx<scroll::Endian, Error = scroll::Error> + scroll::ctx::SizeWith<scroll::Endian>,
{
    assert!(index < crate::mem_writer::__verif_mem_writer::array_size_of(w), "thread record index inside the reserved list");   // [C01]
    if core::mem::size_of::<T>() == core::mem::size_of::<MDRawThread>() {
        // the only instantiation in this file is T = MDRawThread
        let t: MDRawThread = unsafe { core::mem::transmute_copy(&val) };
        unsafe {
            if index < MAXT {
                SLOT_TID[index] = t.thread_id;
                SLOT_CTX[index] = t.thread_context.rva;
                SLOT_WRITTEN[index] = true;
            }
        }
    }
    core::mem::forget(val);
    Ok(())
}

fn g_noop_ti(_t: &ThreadInfo, _out: &mut RawContextCPU) {}
fn g_noop_cc(_c: &crate::linux::crash_context::CrashContext, _out: &mut RawContextCPU) {}

macro_rules! tls_stubs {
    ($(#[$m:meta])* fn $name:ident() $body:block) => {
        #[kani::proof]
        #[kani::stub(PtraceDumper::get_thread_info_by_index, g_info)]
        #[kani::stub(fill_thread_stack, g_fill_thread_stack)]
        #[kani::stub(PtraceDumper::copy_from_process, g_copy)]
        #[kani::stub(MemoryWriter::alloc_with_val, stub_alloc_with_val)]
        #[kani::stub(MemoryArrayWriter::alloc_array, stub_alloc_array)]
        #[kani::stub(MemoryArrayWriter::set_value_at, g_set_value_at)]
        #[kani::stub(crate::linux::thread_info::x86::ThreadInfoX86::fill_cpu_context, g_noop_ti)]
        #[kani::stub(crate::linux::crash_context::CrashContext::fill_cpu_context, g_noop_cc)]
        $(#[$m])*
        fn $name() $body
    };
}

fn threads(n: usize, first_tid: i32) -> Vec<Thread> {
    let mut v = Vec::new();
    let mut i = 0;
    while i < n { v.push(Thread { tid: first_tid + i as i32, name: None }); i += 1; }
    v
}

// [B] two threads, no crash context: one record per thread, in order, with that thread's id and its own
// context blob; the blamed thread's context and instruction pointer are remembered for the exception
// stream (C04, C05). Bound: 2 threads.
tls_stubs! {
    #[kani::unwind(6)]
    fn vk_tls_two_threads_no_context() {
        let blamed_second: bool = kani::any();
        unsafe { INFO_IP = kani::any(); INFO_SP = kani::any(); }
        let dumper = bare_dumper(threads(2, 100), Vec::new());
        let mut config = MinidumpWriter::new(100, if blamed_second { 101 } else { 100 });
        let mut buffer = DumpBuf::with_capacity(0);
        let r = write(&mut config, &mut buffer, &dumper);
        core::mem::forget(dumper);
        match r {
            Ok(dirent) => unsafe {
                assert!(dirent.stream_type == MDStreamType::ThreadListStream as u32);
                assert!(dirent.location.rva == 0 && dirent.location.data_size == 4 + 2 * 48);           // [C01] [C04]
                assert!(SLOT_WRITTEN[0] && SLOT_WRITTEN[1]);
                assert!(SLOT_TID[0] == 100 && SLOT_TID[1] == 101);                                       // [C04] each thread once, in order
                assert!(SLOT_CTX[0] != SLOT_CTX[1] && SLOT_CTX[0] >= 4 + 96 && SLOT_CTX[1] >= 4 + 96);    // [C04] own context blob
                assert!(CALLS == 2 && CALL_TID[0] == 100 && CALL_TID[1] == 101);
                assert!(CALL_IP[0] == INFO_IP && CALL_SP[0] == INFO_SP);                                  // [C06] the thread's own registers
                assert!(!CAPPED[0] && !CAPPED[1]);                                                        // [C06] no limit set
                let b = if blamed_second { 1 } else { 0 };
                match config.crashing_thread_context {
                    CrashingThreadContext::CrashContextPlusAddress((loc, ip)) => {
                        assert!(loc.rva == SLOT_CTX[b] && ip == INFO_IP);                                 // [C05]
                    }
                    _ => assert!(false, "the blamed thread's context must be remembered"),               // [C05]
                }
            },
            Err(e) => { core::mem::forget(e); assert!(false); }
        }
    }
}

// [B] crash context given for the second thread: its record uses the crash context (never the live
// registers), is never size-limited, the exception stream's context is that same blob, and a window of up
// to 128 bytes on either side of the crash instruction pointer, clipped to its mapping, is read (C05, C06, C07).
// Bound: 2 threads, one mapping [0x10000, 0x10000 + size), size and ip symbolic.
tls_stubs! {
    #[kani::unwind(6)]
    fn vk_tls_crash_context_thread() {
        let cc = crate::linux::crash_context::__verif_crash_context::any_crash_context();
        let ip = cc.get_instruction_pointer();
        let sp = cc.get_stack_pointer();
        unsafe { INFO_IP = 7; INFO_SP = 9; }
        let start: usize = 0x10000;
        let size: usize = kani::any();
        kani::assume(size >= 1 && size <= 0x100000);
        let m = crate::maps_reader::MappingInfo {
            start_address: start, size,
            system_mapping_info: crate::maps_reader::SystemMappingInfo { start_address: start, end_address: start + size },
            offset: 0, permissions: procfs_core::process::MMPermissions::READ, name: None,
        };
        let dumper = bare_dumper(threads(2, 100), vec![m]);
        let mut config = MinidumpWriter::new(100, 101);
        config.crash_context = Some(cc);
        if kani::any() { config.minidump_size_limit = Some(kani::any()); }
        let mut buffer = DumpBuf::with_capacity(0);
        let r = write(&mut config, &mut buffer, &dumper);
        core::mem::forget(dumper);
        match r {
            Ok(_dirent) => unsafe {
                assert!(SLOT_TID[0] == 100 && SLOT_TID[1] == 101);
                assert!(CALLS == 2);
                assert!(CALL_IP[1] == ip && CALL_SP[1] == sp);            // [C05] the supplied context, not the live registers
                assert!(CALL_IP[0] == 7 && CALL_SP[0] == 9);
                assert!(!CAPPED[1]);                                      // [C06] the crash-context thread is never shortened
                match config.crashing_thread_context {
                    CrashingThreadContext::CrashContext(loc) => assert!(loc.rva == SLOT_CTX[1]),   // [C05] same blob
                    _ => assert!(false),
                }
                let inside = ip >= start && ip < start + size;
                if inside {
                    let lo = core::cmp::max(start, ip - 128);
                    let hi = core::cmp::min(start + size, ip + 128);
                    assert!(COPY_CALLS == 1 && COPY_SRC == lo && COPY_LEN == hi - lo);             // [C07] window clipped to the mapping
                    assert!(config.memory_blocks.len() == 1 && config.memory_blocks[0].start_of_memory_range == lo as u64);   // [C07]
                } else {
                    assert!(COPY_CALLS == 0 && config.memory_blocks.is_empty());                   // [C07] no window outside any mapping
                }
            },
            Err(e) => { core::mem::forget(e); assert!(false); }
        }
    }
}

// [B] which threads get the 2 KiB cap: with a size limit that the estimate exceeds, exactly the threads at
// list position >= 20 (C06). Bound: 22 threads. Layout-only allocation stubs (ghost image end).
#[kani::proof]
#[kani::stub(PtraceDumper::get_thread_info_by_index, g_info)]
#[kani::stub(fill_thread_stack, g_fill_thread_stack)]
#[kani::stub(Buffer::position, crate::mem_writer::__verif_mem_writer::stub_position)]
#[kani::stub(MemoryWriter::alloc_with_val, crate::mem_writer::__verif_mem_writer::stub_alloc_with_val_nogrow)]
#[kani::stub(MemoryArrayWriter::alloc_array, crate::mem_writer::__verif_mem_writer::stub_alloc_array_nogrow)]
#[kani::stub(MemoryArrayWriter::set_value_at, g_set_value_at)]
#[kani::stub(crate::linux::thread_info::x86::ThreadInfoX86::fill_cpu_context, g_noop_ti)]
#[kani::unwind(25)]
fn vk_tls_cap_selection_22() {
    unsafe { INFO_IP = 1; INFO_SP = 2; }
    let dumper = bare_dumper(threads(22, 100), Vec::new());
    let mut config = MinidumpWriter::new(100, 100);
    let limit: u64 = kani::any();
    let limited: bool = kani::any();
    if limited { config.minidump_size_limit = Some(limit); }
    let mut buffer = DumpBuf::with_capacity(0);
    let r = write(&mut config, &mut buffer, &dumper);
    core::mem::forget(dumper);
    match r {
        Ok(_) => unsafe {
            assert!(CALLS == 22);
            // estimate = image end after header + list (4 + 22*48) + 22 * 8 KiB + 64 KiB
            let estimate: u64 = (4 + 22 * 48) as u64 + 22 * 8 * 1024 + 64 * 1024;
            let expect_cap = limited && estimate > limit;
            let mut i = 0;
            while i < 22 {
                assert!(CAPPED[i] == (expect_cap && i >= 20));        // [C06]
                i += 1;
            }
        },
        Err(e) => { core::mem::forget(e); assert!(false); }
    }
}

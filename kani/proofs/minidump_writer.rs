//@inject src/linux/minidump_writer.rs
// Kani obligations on src/linux/minidump_writer.rs: control flow of `dump()` against stubbed callees.
//
// [C] the real `dump()` runs on an ARBITRARY incoming writer state (any number of stale memory blocks up
// to 2, any crashing-thread context, any principal mapping, any option combination); every callee that
// touches the target is a stub that keeps ghost state, and the stub of `generate_dump` asserts the
// precondition under which the section writers were proved (Verus unit `stack`):
//     memory_blocks is empty, crashing_thread_context is None                      [C19]
//     skip && address given  =>  principal_mapping == find_mapping_no_bias(address) [C19]
//     the threads are suspended and not yet resumed                                 [C04]
//     skip && !references    =>  PrincipalMappingNotReferenced was pushed           [C20]
// and after `dump()` returns — Ok, or Err from any stubbed callee — the dumper has been dropped:
//     resume_threads ran and SIGCONT was sent                                       [C03]
// Loop-free relative to the stubs: no bound is involved.
use super::*;
extern crate alloc;
use crate::linux::ptrace_dumper::InitError;
use crate::linux::errors::{self, DumperError};

static mut SUSPENDED: bool = false;
static mut RESUMED: bool = false;
static mut CONT_SENT: bool = false;
static mut GENERATE_ENTERED: bool = false;
static mut REFS: bool = false;
static mut FIND_SOME: bool = false;
static mut NEW_OK: bool = false;

static mut MAY_FAIL: bool = false;

fn stub_new(pid: Pid, _t: Duration, auxv: AuxvDumpInfo, _e: impl WriteErrorList<InitError>) -> std::result::Result<PtraceDumper, InitError> {
    // failure paths are explored by the fresh-writer harness only (dropping symbolic error values is what
    // makes CBMC slow: the reused-writer harness keeps every callee on its success path)
    if unsafe { MAY_FAIL } && kani::any() { return Err(InitError::CannotPtraceSameProcess); }
    let mut threads = Vec::new();
    if kani::any() { threads.push(crate::linux::ptrace_dumper::Thread { tid: pid, name: None }); }
    let mut d = crate::linux::ptrace_dumper::__verif_ptrace_dumper::bare_dumper(threads, Vec::new());
    d.pid = pid;
    d.auxv = auxv;
    unsafe { NEW_OK = true; }
    Ok(d)
}

fn stub_suspend(_d: &mut PtraceDumper, _e: impl WriteErrorList<DumperError>) {
    unsafe { SUSPENDED = true; }
}

fn stub_resume(_d: &mut PtraceDumper, _e: impl WriteErrorList<DumperError>) {
    unsafe { RESUMED = true; }
}

fn stub_kill<T: Into<Option<nix::sys::signal::Signal>>>(_pid: nix::unistd::Pid, signal: T) -> nix::Result<()> {
    if signal.into() == Some(nix::sys::signal::Signal::SIGCONT) {
        unsafe { CONT_SENT = true; }
    }
    Ok(())
}

fn stub_refs(_w: &MinidumpWriter, _d: &PtraceDumper) -> bool {
    unsafe { REFS }
}

fn stub_find<'a>(_d: &'a PtraceDumper, _address: usize) -> Option<&'a MappingInfo> {
    None
}

fn stub_generate<W: Write + Seek>(
    w: &mut MinidumpWriter,
    _buffer: &mut DumpBuf,
    _dumper: &mut PtraceDumper,
    soft_errors: ErrorList<WriterError>,
    _destination: &mut W,
) -> Result<()> {
    unsafe {
        GENERATE_ENTERED = true;
        assert!(SUSPENDED && !RESUMED, "threads are suspended while the dump is generated");          // [C04]
    }
    assert!(w.memory_blocks.is_empty(), "memory regions recorded by an earlier dump leak into this one");   // [C19]
    assert!(matches!(w.crashing_thread_context, CrashingThreadContext::None),
            "the crashing-thread context of an earlier dump leaks into this one");                     // [C19]
    if w.skip_stacks_if_mapping_unreferenced && w.principal_mapping_address.is_some() {
        // the stubbed lookup finds nothing, so a fresh writer would have no principal mapping
        assert!(w.principal_mapping.is_none(), "the principal mapping of an earlier dump leaks into this one");   // [C19]
    }
    if w.skip_stacks_if_mapping_unreferenced && unsafe { !REFS } {
        assert!(soft_errors.iter().any(|e| matches!(e, WriterError::PrincipalMappingNotReferenced)));     // [C20]
    }
    core::mem::forget(soft_errors);
    if unsafe { MAY_FAIL } && kani::any() { Err(WriterError::PrincipalMappingNotReferenced) } else { Ok(()) }
}

fn any_loc() -> MDLocationDescriptor { MDLocationDescriptor { data_size: kani::any(), rva: kani::any() } }

macro_rules! dump_stubs {
    ($(#[$m:meta])* fn $name:ident() $body:block) => {
        #[kani::proof]
        #[kani::stub(PtraceDumper::new_report_soft_errors, stub_new)]
        #[kani::stub(PtraceDumper::suspend_threads, stub_suspend)]
        #[kani::stub(PtraceDumper::resume_threads, stub_resume)]
        #[kani::stub(PtraceDumper::find_mapping_no_bias, stub_find)]
        #[kani::stub(MinidumpWriter::crash_thread_references_principal_mapping, stub_refs)]
        #[kani::stub(MinidumpWriter::generate_dump, stub_generate)]
        #[kani::stub(nix::sys::signal::kill, stub_kill)]
        $(#[$m])*
        fn $name() $body
    };
}

fn check_after_dump() {
    unsafe {
        if GENERATE_ENTERED || SUSPENDED {
            assert!(RESUMED, "every return path of dump() resumes the threads it suspended");   // [C03]
        }
        if SUSPENDED {
            assert!(CONT_SENT, "every return path of dump() lets the process continue");       // [C03]
        }
        if NEW_OK {
            // between a successful init and generate_dump nothing is fatal: losing every thread at attach time,
            // or a principal mapping that nobody references, are soft errors
            assert!(GENERATE_ENTERED, "attach failures and an unreferenced principal mapping never make the dump fail");   // [C11] [C20]
        }
    }
}

// the writer was used before: one stale memory block, a stale crashing-thread context, a stale principal
// mapping (values symbolic); every option combination
dump_stubs! {
    #[kani::unwind(4)]
    fn vk_dump_reused_writer() {
        let mut w = MinidumpWriter::new(kani::any(), kani::any());
        w.memory_blocks.push(MDMemoryDescriptor { start_of_memory_range: kani::any(), memory: any_loc() });
        w.crashing_thread_context = CrashingThreadContext::CrashContextPlusAddress((any_loc(), kani::any()));
        w.principal_mapping = Some(MappingInfo {
            start_address: 0x1000, size: 0x1000,
            system_mapping_info: crate::linux::maps_reader::SystemMappingInfo { start_address: 0x1000, end_address: 0x2000 },
            offset: 0, permissions: procfs_core::process::MMPermissions::READ, name: None,
        });
        w.skip_stacks_if_mapping_unreferenced = kani::any();
        if kani::any() { w.principal_mapping_address = Some(kani::any()); }
        unsafe { REFS = kani::any(); }
        let mut dest = std::io::Cursor::new(Vec::<u8>::new());
        let r = w.dump(&mut dest);
        check_after_dump();
        core::mem::forget(r);
        core::mem::forget(w);
    }
}

// a fresh writer: every failure point of dump() (init fails, generate_dump fails) still resumes the target
dump_stubs! {
    #[kani::unwind(4)]
    fn vk_dump_fresh_writer_all_paths() {
        let mut w = MinidumpWriter::new(kani::any(), kani::any());
        w.skip_stacks_if_mapping_unreferenced = kani::any();
        w.sanitize_stack = kani::any();
        unsafe { REFS = kani::any(); MAY_FAIL = true; }
        let mut dest = std::io::Cursor::new(Vec::<u8>::new());
        let r = w.dump(&mut dest);
        check_after_dump();
        core::mem::forget(r);
        core::mem::forget(w);
    }
}

// ===========================================================================
// [C] control flow of the real `generate_dump()` against stubbed callees (C01(c), C03, C04, C10, C11).
// Every section writer, write_file, write_soft_errors, resume_threads, SystemTime::now, format! and the
// two loop-carrying primitives Buffer::reserve / DirSection::write_to_file are replaced by stubs that
// (a) behave nondeterministically within their contract (Ok with an arbitrary entry, or Err) and
// (b) keep ghost state. Loop-free relative to the stubs: no bound is involved.
//   [C01] a directory entry is emitted exactly `num_writers` (18) times on success, never more, and the
//         header declares that count
//   [C10] every entry goes through write_to_file (flush-then-entry, proved in Verus); dump_dir_entry is
//         never called directly
//   [C03]/[C04] nothing reads the target after resume_threads; resume_threads runs before the soft-error
//         stream is written; on Ok the threads have been resumed
//   [C11] a failing best-effort step never fails the dump: its slot gets the all-zero entry and exactly one
//         soft error of the matching kind is recorded
// ===========================================================================
static mut ENTRIES: u32 = 0;
static mut ZERO_ENTRIES: u32 = 0;
static mut G_RESUMED: bool = false;
static mut READ_AFTER_RESUME: bool = false;
static mut SOFT_WRITTEN_BEFORE_RESUME: bool = false;
static mut FAILED_BEST_EFFORT: u32 = 0;
static mut SOFT_ERRORS_SEEN: u32 = 0;
static mut DIRECT_DIR_ENTRY: bool = false;

fn touch_target() { unsafe { if G_RESUMED { READ_AFTER_RESUME = true; } } }
fn any_dirent() -> MDRawDirectory { MDRawDirectory { stream_type: kani::any(), location: any_loc() } }

fn g_thread_list(_c: &mut MinidumpWriter, _b: &mut DumpBuf, _d: &PtraceDumper) -> std::result::Result<MDRawDirectory, errors::SectionThreadListError> {
    touch_target();
    if kani::any() { Ok(any_dirent()) } else { Err(errors::SectionThreadListError::ThreadInfoError(errors::ThreadInfoError::IndexOutOfBounds(0, 0))) }
}
fn g_mappings(_c: &mut MinidumpWriter, _b: &mut DumpBuf, _d: &mut PtraceDumper) -> std::result::Result<MDRawDirectory, errors::SectionMappingsError> {
    touch_target();
    Ok(any_dirent())
}
fn g_app_memory(_c: &mut MinidumpWriter, _b: &mut DumpBuf) -> std::result::Result<(), errors::SectionAppMemoryError> {
    touch_target();
    Ok(())
}
fn g_memory_list(_c: &mut MinidumpWriter, _b: &mut DumpBuf) -> std::result::Result<MDRawDirectory, errors::SectionMemListError> { Ok(any_dirent()) }
fn g_exception(_c: &mut MinidumpWriter, _b: &mut DumpBuf) -> std::result::Result<MDRawDirectory, errors::SectionExceptionStreamError> { Ok(any_dirent()) }
fn g_systeminfo(_b: &mut DumpBuf, _e: impl WriteErrorList<errors::SectionSystemInfoError>) -> std::result::Result<MDRawDirectory, errors::SectionSystemInfoError> { Ok(any_dirent()) }
fn g_meminfo(_c: &mut MinidumpWriter, _b: &mut DumpBuf) -> std::result::Result<MDRawDirectory, errors::SectionMemInfoListError> {
    touch_target();
    Ok(any_dirent())
}
fn g_write_file(_w: &MinidumpWriter, _b: &mut DumpBuf, f: &str) -> std::result::Result<MDLocationDescriptor, MemoryWriterError> {
    touch_target();
    if kani::any() { Ok(any_loc()) } else {
        // "/etc/lsb-release" falls back to "/etc/os-release": only the failure of the fallback fails the step
        // ("/etc/lsb-release" is the only 16-byte file name generate_dump passes; a byte-wise comparison would
        // need memcmp unwinding)
        if f.len() != 16 {
            unsafe { FAILED_BEST_EFFORT += 1; }
        }
        Err(MemoryWriterError::Scroll(scroll::Error::TooBig { size: 0, len: 0 }))
    }
}
fn g_dso_debug(_b: &mut Buffer, _p: i32, _a: &AuxvDumpInfo) -> std::result::Result<MDRawDirectory, errors::SectionDsoDebugError> {
    touch_target();
    if kani::any() { Ok(any_dirent()) } else {
        unsafe { FAILED_BEST_EFFORT += 1; }
        Err(errors::SectionDsoDebugError::CouldNotFind("x"))
    }
}
fn g_thread_names(_b: &mut DumpBuf, _d: &PtraceDumper) -> std::result::Result<MDRawDirectory, errors::SectionThreadNamesError> { Ok(any_dirent()) }
fn g_handles(_c: &mut MinidumpWriter, _b: &mut DumpBuf) -> std::result::Result<MDRawDirectory, errors::SectionHandleDataStreamError> {
    touch_target();
    if kani::any() { Ok(any_dirent()) } else {
        unsafe { FAILED_BEST_EFFORT += 1; }
        Err(errors::SectionHandleDataStreamError::MemoryWriterError(MemoryWriterError::Scroll(scroll::Error::TooBig { size: 0, len: 0 })))
    }
}
fn g_resume(_d: &mut PtraceDumper, _e: impl WriteErrorList<DumperError>) { unsafe { G_RESUMED = true; } }
fn g_soft_errors(_b: &mut DumpBuf, soft_errors: ErrorList<WriterError>) -> Result<MDLocationDescriptor> {
    unsafe {
        if !G_RESUMED { SOFT_WRITTEN_BEFORE_RESUME = true; }
        SOFT_ERRORS_SEEN = soft_errors.len() as u32;
    }
    core::mem::forget(soft_errors);
    Ok(any_loc())
}
fn g_now() -> std::time::SystemTime { std::time::UNIX_EPOCH }
fn g_format(_a: core::fmt::Arguments<'_>) -> String { String::new() }
fn g_reserve(b: &mut Buffer, len: usize) -> usize {
    let mark = b.position() as usize;
    let z = vec![0u8; len];
    b.write_all(&z);
    mark
}
fn g_write_to_file<'a: 'a, W: Write + Seek>(
    _d: &mut DirSection<'a, W>,
    _b: &mut DumpBuf,
    dirent: Option<MDRawDirectory>,
) -> std::result::Result<(), crate::dir_section::FileWriterError> {
    if let Some(d) = dirent {
        unsafe {
            assert!(ENTRIES < 18, "more directory entries than the declared stream count");   // [C01]
            ENTRIES += 1;
            if d.stream_type == 0 && d.location.rva == 0 && d.location.data_size == 0 { ZERO_ENTRIES += 1; }
        }
    }
    Ok(())
}
fn g_dump_dir_entry<'a: 'a, W: Write + Seek>(
    _d: &mut DirSection<'a, W>,
    _b: &mut DumpBuf,
    _dirent: MDRawDirectory,
) -> std::result::Result<(), crate::dir_section::FileWriterError> {
    unsafe { DIRECT_DIR_ENTRY = true; }
    Ok(())
}

#[kani::proof]
#[kani::stub(thread_list_stream::write, g_thread_list)]
#[kani::stub(mappings::write, g_mappings)]
#[kani::stub(app_memory::write, g_app_memory)]
#[kani::stub(memory_list_stream::write, g_memory_list)]
#[kani::stub(exception_stream::write, g_exception)]
#[kani::stub(systeminfo_stream::write, g_systeminfo)]
#[kani::stub(memory_info_list_stream::write, g_meminfo)]
#[kani::stub(MinidumpWriter::write_file, g_write_file)]
#[kani::stub(dso_debug::write_dso_debug_stream, g_dso_debug)]
#[kani::stub(thread_names_stream::write, g_thread_names)]
#[kani::stub(handle_data_stream::write, g_handles)]
#[kani::stub(PtraceDumper::resume_threads, g_resume)]
#[kani::stub(write_soft_errors, g_soft_errors)]
#[kani::stub(std::time::SystemTime::now, g_now)]
#[kani::stub(alloc::fmt::format, g_format)]
#[kani::stub(Buffer::reserve, g_reserve)]
#[kani::stub(DirSection::write_to_file, g_write_to_file)]
#[kani::stub(DirSection::dump_dir_entry, g_dump_dir_entry)]
#[kani::unwind(3)]
fn vk_generate_dump_control_flow() {
    let mut w = MinidumpWriter::new(1, 1);
    let mut dumper = crate::linux::ptrace_dumper::__verif_ptrace_dumper::bare_dumper(Vec::new(), Vec::new());
    let mut buffer = Buffer::with_capacity(0);
    let mut dest = std::io::Cursor::new(Vec::<u8>::new());
    let soft_errors = ErrorList::default();
    let r = w.generate_dump(&mut buffer, &mut dumper, soft_errors, &mut dest);
    core::mem::forget(dumper);
    unsafe {
        assert!(!DIRECT_DIR_ENTRY, "directory entries must go through write_to_file (flush, then entry)");   // [C10]
        assert!(!READ_AFTER_RESUME, "the target is read after its threads were resumed");                   // [C04]
        assert!(!SOFT_WRITTEN_BEFORE_RESUME, "soft errors are collected after the threads were resumed");    // [C03]
        match r {
            Ok(()) => {
                assert!(ENTRIES == 18, "exactly the declared number of directory entries");                  // [C01]
                let img: &[u8] = &buffer;
                assert!(img.len() >= 32 + 18 * 12);
                assert!(u32::from_le_bytes([img[8], img[9], img[10], img[11]]) == 18);                       // [C01] header.stream_count
                assert!(u32::from_le_bytes([img[12], img[13], img[14], img[15]]) == 32);                     // [C01] directory rva
                assert!(G_RESUMED, "a successful dump has resumed the threads");                             // [C03]
                assert!(SOFT_ERRORS_SEEN == FAILED_BEST_EFFORT, "one soft error per failed best-effort step"); // [C11]
                assert!(ZERO_ENTRIES >= FAILED_BEST_EFFORT, "a failed best-effort stream leaves an unused entry"); // [C11]
            }
            Err(e) => { core::mem::forget(e); }
        }
    }
}

// [C] the 18 stream types generate_dump can emit are pairwise distinct and none is the "unused" value 0 (C01:
// "a stream of a type that occurs only once")
#[kani::proof]
fn vk_stream_types_distinct() {
    let t = [
        MDStreamType::ThreadListStream as u32, MDStreamType::ModuleListStream as u32, MDStreamType::MemoryListStream as u32,
        MDStreamType::ExceptionStream as u32, MDStreamType::SystemInfoStream as u32, MDStreamType::MemoryInfoListStream as u32,
        MDStreamType::LinuxCpuInfo as u32, MDStreamType::LinuxProcStatus as u32, MDStreamType::LinuxLsbRelease as u32,
        MDStreamType::LinuxCmdLine as u32, MDStreamType::LinuxEnviron as u32, MDStreamType::LinuxAuxv as u32,
        MDStreamType::LinuxMaps as u32, MDStreamType::LinuxDsoDebug as u32, MDStreamType::MozLinuxLimits as u32,
        MDStreamType::ThreadNamesStream as u32, MDStreamType::HandleDataStream as u32, MDStreamType::MozSoftErrors as u32,
    ];
    let (i, j): (usize, usize) = (kani::any(), kani::any());
    kani::assume(i < 18 && j < 18 && i != j);
    assert!(t[i] != t[j] && t[i] != 0);
}

//@inject src/linux/maps_reader.rs
// Kani obligations on src/linux/maps_reader.rs (C20 stack scan, C08 filters, C02 totality).
use super::*;

fn any_perms() -> MMPermissions {
    MMPermissions::from_bits_truncate(kani::any())
}

/// a mapping with symbolic numbers and no name (names are concrete per harness: strings are a cost cliff)
fn any_mapping(name: Option<OsString>) -> MappingInfo {
    let start: usize = kani::any();
    let size: usize = kani::any();
    kani::assume(size > 0 && start <= usize::MAX - size);
    MappingInfo {
        start_address: start,
        size,
        system_mapping_info: SystemMappingInfo { start_address: start, end_address: start + size },
        offset: kani::any(),
        permissions: any_perms(),
        name,
    }
}

// ---------------------------------------------------------------------------
// [B] stack_has_pointer_to_mapping == has_ptr (the contract Verus assumes in unit `stack`):
//   true  <=> some word at offset k = align_up8(sp_offset) + 8j, k + 8 <= len, lies in [low, high)
// and it never panics (C02). Bound: stack copies of exactly N bytes (N in the harness name),
// fully symbolic content, symbolic sp_offset (any usize), symbolic [low, high).
// ---------------------------------------------------------------------------
fn has_ptr_spec<const N: usize>(s: &[u8; N], sp_off: usize, low: usize, high: usize) -> bool {
    let mut k = match sp_off.checked_add(7) { Some(x) => x & !7, None => return false };
    while k <= N && N - k >= 8 {
        let w = usize::from_le_bytes([s[k], s[k + 1], s[k + 2], s[k + 3], s[k + 4], s[k + 5], s[k + 6], s[k + 7]]);
        if low <= w && w < high { return true; }
        k += 8;
    }
    false
}

fn check_has_ptr<const N: usize>() {
    let s: [u8; N] = kani::any();
    let sp_off: usize = kani::any();
    let m = any_mapping(None);
    let r = m.stack_has_pointer_to_mapping(&s, sp_off);
    assert!(r == has_ptr_spec::<N>(&s, sp_off, m.system_mapping_info.start_address, m.system_mapping_info.end_address));
}

#[kani::proof]
#[kani::unwind(5)]
fn vk_has_ptr_len0() { check_has_ptr::<0>(); }
#[kani::proof]
#[kani::unwind(5)]
fn vk_has_ptr_len7() { check_has_ptr::<7>(); }
#[kani::proof]
#[kani::unwind(5)]
fn vk_has_ptr_len8() { check_has_ptr::<8>(); }
#[kani::proof]
#[kani::unwind(5)]
fn vk_has_ptr_len17() { check_has_ptr::<17>(); }
#[kani::proof]
#[kani::unwind(6)]
fn vk_has_ptr_len24() { check_has_ptr::<24>(); }

// ---------------------------------------------------------------------------
// [C] module filters (C08): loop-free, every field symbolic
// ---------------------------------------------------------------------------
#[kani::proof]
fn vk_is_interesting_rule() {
    let named: bool = kani::any();
    let m = any_mapping(if named { Some(OsString::from("/a")) } else { None });
    let exec = m.permissions.contains(MMPermissions::EXECUTE);
    assert!(m.is_interesting() == (named && (m.offset == 0 || exec) && m.size >= 4096));
}

#[kani::proof]
fn vk_contains_address_rule() {
    let m = any_mapping(None);
    let a: usize = kani::any();
    assert!(m.contains_address(a) == (m.start_address <= a && a - m.start_address < m.size || false) || !(m.start_address <= a));
    assert!(m.contains_address(a) == (m.system_mapping_info.start_address <= a && a < m.system_mapping_info.end_address));
}

// is_contained_in: true <=> some user mapping wholly contains this one.
// Bound: user lists of exactly 0, 1 and 2 symbolic mappings (a symbolic list *length* exhausts memory).
fn contained(m: &MappingInfo, u: &MappingInfo) -> bool {
    m.start_address >= u.start_address && m.start_address + m.size <= u.start_address + u.size
}

#[kani::proof]
#[kani::unwind(4)]
fn vk_is_contained_in_n0() {
    let m = any_mapping(None);
    let list: MappingList = Vec::new();
    assert!(!m.is_contained_in(&list));
}

#[kani::proof]
#[kani::unwind(4)]
fn vk_is_contained_in_n1() {
    let m = any_mapping(None);
    let u1 = any_mapping(None);
    let expect = contained(&m, &u1);
    let list: MappingList = vec![MappingEntry { mapping: u1, identifier: Vec::new() }];
    assert!(m.is_contained_in(&list) == expect);
}

#[kani::proof]
#[kani::unwind(4)]
fn vk_is_contained_in_n2() {
    let m = any_mapping(None);
    let u1 = any_mapping(None);
    let u2 = any_mapping(None);
    let expect = contained(&m, &u1) || contained(&m, &u2);
    let list: MappingList = vec![
        MappingEntry { mapping: u1, identifier: Vec::new() },
        MappingEntry { mapping: u2, identifier: Vec::new() },
    ];
    assert!(m.is_contained_in(&list) == expect);
}

// is_mapped_file_safe_to_open (C02: never open something under /dev): concrete name table
#[kani::proof]
#[kani::unwind(8)]
fn vk_safe_to_open_table() {
    assert!(!MappingInfo::is_mapped_file_safe_to_open(&Some(OsString::from("/dev/x"))));
    assert!(!MappingInfo::is_mapped_file_safe_to_open(&Some(OsString::from("/dev/"))));
    assert!(MappingInfo::is_mapped_file_safe_to_open(&Some(OsString::from("/devx"))));
    assert!(MappingInfo::is_mapped_file_safe_to_open(&Some(OsString::from("/a"))));
    assert!(MappingInfo::is_mapped_file_safe_to_open(&None));
}

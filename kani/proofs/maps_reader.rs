//@inject src/linux/maps_reader.rs
// Kani obligations on src/linux/maps_reader.rs (C20 stack scan, C08 filters, C02 totality).
use super::*;
extern crate alloc;

fn any_perms() -> MMPermissions {
    MMPermissions::from_bits_truncate(kani::any())
}

/// a mapping with symbolic numbers and no name (names are concrete per harness: strings are a cost cliff)
fn any_mapping(name: Option<OsString>) -> MappingInfo {
    let start: usize = kani::any();
    let size: usize = kani::any();
    kani::assume(size > 0 && start <= usize::MAX - size);
    MappingInfo {
        start_address: start,
        size,
        system_mapping_info: SystemMappingInfo { start_address: start, end_address: start + size },
        offset: kani::any(),
        permissions: any_perms(),
        name,
    }
}

// ---------------------------------------------------------------------------
// [B] stack_has_pointer_to_mapping == has_ptr (the contract Verus assumes in unit `stack`):
//   true  <=> some word at offset k = align_up8(sp_offset) + 8j, k + 8 <= len, lies in [low, high)
// and it never panics (C02). Bound: stack copies of exactly N bytes (N in the harness name),
// fully symbolic content, symbolic sp_offset (any usize), symbolic [low, high).
// ---------------------------------------------------------------------------
fn has_ptr_spec<const N: usize>(s: &[u8; N], sp_off: usize, low: usize, high: usize) -> bool {
    let mut k = match sp_off.checked_add(7) { Some(x) => x & !7, None => return false };
    while k <= N && N - k >= 8 {
        let w = usize::from_le_bytes([s[k], s[k + 1], s[k + 2], s[k + 3], s[k + 4], s[k + 5], s[k + 6], s[k + 7]]);
        if low <= w && w < high { return true; }
        k += 8;
    }
    false
}

fn check_has_ptr<const N: usize>() {
    let s: [u8; N] = kani::any();
    let sp_off: usize = kani::any();
    let m = any_mapping(None);
    let r = m.stack_has_pointer_to_mapping(&s, sp_off);
    assert!(r == has_ptr_spec::<N>(&s, sp_off, m.system_mapping_info.start_address, m.system_mapping_info.end_address));
}

#[kani::proof]
#[kani::unwind(5)]
fn vk_has_ptr_len0() { check_has_ptr::<0>(); }
#[kani::proof]
#[kani::unwind(5)]
fn vk_has_ptr_len7() { check_has_ptr::<7>(); }
#[kani::proof]
#[kani::unwind(5)]
fn vk_has_ptr_len8() { check_has_ptr::<8>(); }
#[kani::proof]
#[kani::unwind(5)]
fn vk_has_ptr_len17() { check_has_ptr::<17>(); }
#[kani::proof]
#[kani::unwind(6)]
fn vk_has_ptr_len24() { check_has_ptr::<24>(); }

// ---------------------------------------------------------------------------
// [C] module filters (C08): loop-free, every field symbolic
// ---------------------------------------------------------------------------
#[kani::proof]
fn vk_is_interesting_rule() {
    let named: bool = kani::any();
    let m = any_mapping(if named { Some(OsString::from("/a")) } else { None });
    let exec = m.permissions.contains(MMPermissions::EXECUTE);
    assert!(m.is_interesting() == (named && (m.offset == 0 || exec) && m.size >= 4096));
}

/// pins the stand-in of MMPermissions used by the Verus units (verus/prelude/linux_types.rs, units/maps_filter.rs.in):
/// READ=1 WRITE=2 EXECUTE=4 and `contains` is the mask test, for every 8-bit value
#[kani::proof]
fn vk_mmpermission_bits() {
    assert!(MMPermissions::READ.bits() == 1 && MMPermissions::WRITE.bits() == 2 && MMPermissions::EXECUTE.bits() == 4);
    assert!(MMPermissions::SHARED.bits() == 8 && MMPermissions::PRIVATE.bits() == 16);
    let p = MMPermissions::from_bits_retain(kani::any());
    let q = MMPermissions::from_bits_retain(kani::any());
    assert!(p.contains(q) == (p.bits() & q.bits() == q.bits()));
    assert!(p.intersects(q) == (p.bits() & q.bits() != 0));
    assert!((p | q).bits() == p.bits() | q.bits());
}

#[kani::proof]
fn vk_contains_address_rule() {
    let m = any_mapping(None);
    let a: usize = kani::any();
    assert!(m.contains_address(a) == (m.start_address <= a && a - m.start_address < m.size || false) || !(m.start_address <= a));
    assert!(m.contains_address(a) == (m.system_mapping_info.start_address <= a && a < m.system_mapping_info.end_address));
}

// is_contained_in: true <=> some user mapping wholly contains this one.
// Bound: user lists of exactly 0, 1 and 2 symbolic mappings (a symbolic list *length* exhausts memory).
fn contained(m: &MappingInfo, u: &MappingInfo) -> bool {
    m.start_address >= u.start_address && m.start_address + m.size <= u.start_address + u.size
}

#[kani::proof]
#[kani::unwind(4)]
fn vk_is_contained_in_n0() {
    let m = any_mapping(None);
    let list: MappingList = Vec::new();
    assert!(!m.is_contained_in(&list));
}

#[kani::proof]
#[kani::unwind(4)]
fn vk_is_contained_in_n1() {
    let m = any_mapping(None);
    let u1 = any_mapping(None);
    let expect = contained(&m, &u1);
    let list: MappingList = vec![MappingEntry { mapping: u1, identifier: Vec::new() }];
    assert!(m.is_contained_in(&list) == expect);
}

#[kani::proof]
#[kani::unwind(4)]
fn vk_is_contained_in_n2() {
    let m = any_mapping(None);
    let u1 = any_mapping(None);
    let u2 = any_mapping(None);
    let expect = contained(&m, &u1) || contained(&m, &u2);
    let list: MappingList = vec![
        MappingEntry { mapping: u1, identifier: Vec::new() },
        MappingEntry { mapping: u2, identifier: Vec::new() },
    ];
    assert!(m.is_contained_in(&list) == expect);
}

// is_mapped_file_safe_to_open (C02: never open something under /dev): concrete name table
#[kani::proof]
#[kani::unwind(8)]
fn vk_safe_to_open_table() {
    assert!(!MappingInfo::is_mapped_file_safe_to_open(&Some(OsString::from("/dev/x"))));
    assert!(!MappingInfo::is_mapped_file_safe_to_open(&Some(OsString::from("/dev/"))));
    // a name the kernel can report need not be UTF-8
    assert!(!MappingInfo::is_mapped_file_safe_to_open(&Some(OsString::from_vec(vec![b'/', b'd', b'e', b'v', b'/', 0xff, 0xfe]))));
    assert!(MappingInfo::is_mapped_file_safe_to_open(&Some(OsString::from("/devx"))));
    assert!(MappingInfo::is_mapped_file_safe_to_open(&Some(OsString::from("/a"))));
    assert!(MappingInfo::is_mapped_file_safe_to_open(&None));
}

// ---------------------------------------------------------------------------
// [B] MappingInfo::aggregate (C13) on symbolic NUMBERS: addresses, sizes, offsets, permissions and the vDSO
// address are symbolic, names are concrete per harness (strings are a cost cliff), `format!` is stubbed.
// `MemoryMaps` is #[non_exhaustive] and `MMapExtension` holds a HashMap (getrandom): both are built by
// transmute / zeroed in the harness only (ledger item 9).
//   one line   : exactly one derived mapping with that line's extent, offset, permissions and name
//                (or the gate name when it starts at the vDSO address and is not a path)
//   two lines, same path : merged into one mapping (hull, OR of permissions) iff contiguous; otherwise two
//                mappings in order
// ---------------------------------------------------------------------------
fn g_format(_a: core::fmt::Arguments<'_>) -> String { String::new() }

fn mk_map(start: u64, end: u64, perms: MMPermissions, offset: u64, path: MMapPath) -> procfs_core::process::MemoryMap {
    procfs_core::process::MemoryMap {
        address: (start, end), perms, offset, dev: (0, 0), inode: 0, pathname: path,
        // all-zero bytes: an empty table with bucket_mask 0 (never allocated, never freed); HashMap::default()
        // would call getrandom, which Kani does not model
        extension: unsafe {
            const N: usize = core::mem::size_of::<procfs_core::process::MMapExtension>();
            core::mem::transmute::<[u8; N], procfs_core::process::MMapExtension>([0u8; N])
        },
    }
}
fn mk_maps(v: Vec<procfs_core::process::MemoryMap>) -> MemoryMaps {
    unsafe { core::mem::transmute::<Vec<procfs_core::process::MemoryMap>, MemoryMaps>(v) }
}

#[kani::proof]
#[kani::stub(alloc::fmt::format, g_format)]
#[kani::unwind(4)]
fn vk_aggregate_one_line_path() {
    let (s, e): (u64, u64) = (kani::any(), kani::any());
    kani::assume(s < e);
    let perms = any_perms();
    let off: u64 = kani::any();
    let gate: Option<u64> = if kani::any() { Some(kani::any()) } else { None };
    let maps = mk_maps(vec![mk_map(s, e, perms, off, MMapPath::Path(PathBuf::from("/a")))]);
    match MappingInfo::aggregate(maps, gate) {
        Ok(out) => {
            assert!(out.len() == 1);
            let m = &out[0];
            assert!(m.start_address == s as usize && m.size == (e - s) as usize);
            assert!(m.system_mapping_info.start_address == s as usize && m.system_mapping_info.end_address == e as usize);
            assert!(m.permissions == perms && m.offset == off as usize);   // a path is never renamed to the gate library
            assert!(m.name.as_deref() == Some(OsStr::new("/a")));
            core::mem::forget(out);
        }
        Err(e) => { core::mem::forget(e); assert!(false); }
    }
}

#[kani::proof]
#[kani::stub(alloc::fmt::format, g_format)]
#[kani::unwind(16)]
fn vk_aggregate_one_line_anonymous_gate() {
    let (s, e): (u64, u64) = (kani::any(), kani::any());
    kani::assume(s < e);
    let gate: Option<u64> = if kani::any() { Some(kani::any()) } else { None };
    let off: u64 = kani::any();
    let maps = mk_maps(vec![mk_map(s, e, any_perms(), off, MMapPath::Anonymous)]);
    match MappingInfo::aggregate(maps, gate) {
        Ok(out) => {
            assert!(out.len() == 1);
            let m = &out[0];
            assert!(m.start_address == s as usize && m.size == (e - s) as usize);
            if gate == Some(s) {
                assert!(m.name.as_deref() == Some(OsStr::new(LINUX_GATE_LIBRARY_NAME)) && m.offset == 0);   // gate naming
            } else {
                assert!(m.name.is_none() && m.offset == off as usize);
            }
            core::mem::forget(out);
        }
        Err(e) => { core::mem::forget(e); assert!(false); }
    }
}

#[kani::proof]
#[kani::stub(alloc::fmt::format, g_format)]
#[kani::unwind(5)]
fn vk_aggregate_two_lines_same_path() {
    let (s0, e0, s1, e1): (u64, u64, u64, u64) = (kani::any(), kani::any(), kani::any(), kani::any());
    kani::assume(s0 < e0 && e0 <= s1 && s1 < e1);    // a well-formed map: ascending, no overlap
    let (p0, p1) = (any_perms(), any_perms());
    let maps = mk_maps(vec![
        mk_map(s0, e0, p0, kani::any(), MMapPath::Path(PathBuf::from("/a"))),
        mk_map(s1, e1, p1, kani::any(), MMapPath::Path(PathBuf::from("/a"))),
    ]);
    match MappingInfo::aggregate(maps, None) {
        Ok(out) => {
            if e0 == s1 {
                assert!(out.len() == 1);                                                  // contiguous, same name: merged
                assert!(out[0].start_address == s0 as usize && out[0].size == (e1 - s0) as usize);   // extent == hull
                assert!(out[0].permissions == (p0 | p1));
            } else {
                assert!(out.len() == 2);                                                  // a hole: never merged
                assert!(out[0].start_address == s0 as usize && out[0].size == (e0 - s0) as usize);
                assert!(out[1].start_address == s1 as usize && out[1].size == (e1 - s1) as usize);
            }
            core::mem::forget(out);
        }
        Err(e) => { core::mem::forget(e); assert!(false); }
    }
}

//@inject src/linux/thread_info/x86.rs
// [C] ThreadInfoX86::fill_cpu_context (C04): every register the kernel reported for the stopped thread
// (user_regs_struct, user_fpregs_struct, debug registers; all symbolic) lands in the CONTEXT_AMD64
// field of the same name. 16-bit segment truncation is what the minidump format stores.
use super::*;

fn any_pod<T, const N: usize>() -> T {
    assert!(core::mem::size_of::<T>() == N);
    let bytes: [u8; N] = kani::any();
    unsafe { core::mem::transmute_copy::<[u8; N], T>(&bytes) }
}

pub(crate) fn any_thread_info() -> ThreadInfoX86 {
    let regs: user_regs_struct = any_pod::<user_regs_struct, 216>();
    ThreadInfoX86 {
        stack_pointer: regs.rsp as usize,
        tgid: kani::any(),
        ppid: kani::any(),
        regs,
        fpregs: any_pod::<user_fpregs_struct, 512>(),
        dregs: kani::any(),
    }
}

#[kani::proof]
fn vk_thread_fill_cpu_context_gprs() {
    let ti = any_thread_info();
    let mut out = RawContextCPU::default();
    ti.fill_cpu_context(&mut out);
    let r = &ti.regs;
    assert!(out.rax == r.rax && out.rbx == r.rbx && out.rcx == r.rcx && out.rdx == r.rdx);
    assert!(out.rsi == r.rsi && out.rdi == r.rdi && out.rbp == r.rbp && out.rsp == r.rsp);
    assert!(out.r8 == r.r8 && out.r9 == r.r9 && out.r10 == r.r10 && out.r11 == r.r11);
    assert!(out.r12 == r.r12 && out.r13 == r.r13 && out.r14 == r.r14 && out.r15 == r.r15);
    assert!(out.rip == r.rip && out.eflags == r.eflags as u32);
    assert!(out.cs == r.cs as u16 && out.ds == r.ds as u16 && out.es == r.es as u16);
    assert!(out.fs == r.fs as u16 && out.gs == r.gs as u16 && out.ss == r.ss as u16);
    assert!(out.dr0 == ti.dregs[0] && out.dr1 == ti.dregs[1] && out.dr2 == ti.dregs[2] && out.dr3 == ti.dregs[3]);
    assert!(out.dr6 == ti.dregs[6] && out.dr7 == ti.dregs[7]);
    assert!(ti.get_instruction_pointer() == r.rip as usize);
}

#[kani::proof]
fn vk_thread_fill_cpu_context_fpstate() {
    let ti = any_thread_info();
    let fs = &ti.fpregs;
    let mut out = RawContextCPU::default();
    ti.fill_cpu_context(&mut out);
    let f = &out.float_save;
    assert!(f[0..2] == fs.cwd.to_le_bytes() && f[2..4] == fs.swd.to_le_bytes());
    assert!(f[4] == fs.ftw as u8);
    assert!(f[6..8] == fs.fop.to_le_bytes());
    assert!(f[8..12] == (fs.rip as u32).to_le_bytes());
    assert!(f[16..20] == (fs.rdp as u32).to_le_bytes());
    assert!(f[24..28] == fs.mxcsr.to_le_bytes() && f[28..32] == fs.mxcr_mask.to_le_bytes());
    let i: usize = kani::any();
    kani::assume(i < 32);
    assert!(f[32 + 4 * i..36 + 4 * i] == fs.st_space[i].to_le_bytes());
    let j: usize = kani::any();
    kani::assume(j < 64);
    assert!(f[160 + 4 * j..164 + 4 * j] == fs.xmm_space[j].to_le_bytes());
}

// ---------------------------------------------------------------------------
// [C] ThreadInfoX86::create_impl (C04: "never given another thread's state"): every register set is read
// from the thread `tid` itself — the general-purpose set, the floating-point set (through either request)
// and each debug register — never from the process id. The ptrace requests are stubs that record the id
// they were asked about; both the primary and the fallback request of each pair are covered.
// ---------------------------------------------------------------------------
static mut ASKED_OTHER: bool = false;
static mut REGSET_FAILS: bool = false;
static mut FPREGSET_FAILS: bool = false;
const TID: Pid = 4242;
const PID: Pid = 77;

fn note(id: Pid) { if id != TID { unsafe { ASKED_OTHER = true; } } }
fn zero_regs() -> user_regs_struct { unsafe { core::mem::zeroed() } }
fn zero_fpregs() -> user_fpregs_struct { unsafe { core::mem::zeroed() } }

fn g_ppid_tgid(tid: Pid) -> Result<(Pid, Pid)> { note(tid); Ok((1, PID)) }
fn g_getregset(id: Pid) -> Result<user_regs_struct> {
    note(id);
    if unsafe { REGSET_FAILS } { Err(ThreadInfoError::IndexOutOfBounds(0, 0)) } else { Ok(zero_regs()) }
}
fn g_getregs(id: Pid) -> Result<user_regs_struct> { note(id); Ok(zero_regs()) }
fn g_getfpregset(id: Pid) -> Result<user_fpregs_struct> {
    note(id);
    if unsafe { FPREGSET_FAILS } { Err(ThreadInfoError::IndexOutOfBounds(0, 0)) } else { Ok(zero_fpregs()) }
}
fn g_getfpregs(id: Pid) -> Result<user_fpregs_struct> { note(id); Ok(zero_fpregs()) }
fn g_peek_user(id: Pid, _addr: ptrace::AddressType) -> nix::Result<libc::c_long> { note(id); Ok(0) }

#[kani::proof]
#[kani::stub(CommonThreadInfo::get_ppid_and_tgid, g_ppid_tgid)]
#[kani::stub(ThreadInfoX86::getregset, g_getregset)]
#[kani::stub(ThreadInfoX86::getregs, g_getregs)]
#[kani::stub(ThreadInfoX86::getfpregset, g_getfpregset)]
#[kani::stub(ThreadInfoX86::getfpregs, g_getfpregs)]
#[kani::stub(ThreadInfoX86::peek_user, g_peek_user)]
#[kani::unwind(10)]
fn vk_thread_info_reads_the_thread_itself() {
    unsafe { REGSET_FAILS = kani::any(); FPREGSET_FAILS = kani::any(); }
    let r = ThreadInfoX86::create_impl(PID, TID);
    assert!(r.is_ok());
    unsafe { assert!(!ASKED_OTHER, "every ptrace request of create_impl(pid, tid) must name tid"); }   // [C04]
    core::mem::forget(r);
}

//@inject src/linux/sections/memory_info_list_stream.rs
// [C] get_memory_protection (C18): the 8-row table of the statement, for every permission bit pattern.
use super::*;

#[kani::proof]
fn vk_memory_protection_table() {
    let bits: u8 = kani::any();
    let p = MMPermissions::from_bits_truncate(bits);
    let (r, w, x) = (p.contains(MMPermissions::READ), p.contains(MMPermissions::WRITE), p.contains(MMPermissions::EXECUTE));
    let got = get_memory_protection(p);
    let want = match (r, w, x) {
        (false, false, false) => MemoryProtection::PAGE_NOACCESS,
        (false, false, true) => MemoryProtection::PAGE_EXECUTE,
        (true, false, false) => MemoryProtection::PAGE_READONLY,
        (true, false, true) => MemoryProtection::PAGE_EXECUTE_READ,
        (_, true, false) => MemoryProtection::PAGE_READWRITE,
        (_, true, true) => MemoryProtection::PAGE_EXECUTE_READWRITE,
    };
    assert!(got.bits() == want.bits());
    // a writable mapping is never reported read-only / no-access; a non-executable one never executable
    if w { assert!(got.bits() == MemoryProtection::PAGE_READWRITE.bits() || got.bits() == MemoryProtection::PAGE_EXECUTE_READWRITE.bits()); }
    if !x { assert!(got.bits() != MemoryProtection::PAGE_EXECUTE.bits() && got.bits() != MemoryProtection::PAGE_EXECUTE_READ.bits() && got.bits() != MemoryProtection::PAGE_EXECUTE_READWRITE.bits()); }
}
